// G5 facts (C20): lock-order edges between the mutexes of the node's shared stores,
// extracted from the Go source with go/parser + go/ast only (no go/types: callees are
// resolved syntactically from receiver/field/parameter/result types of the declarations).
//
// For every function/method of the scanned packages the extractor walks the body with the
// set of locks that MAY be held at each point (`X.mu.Lock()` adds, a non-deferred
// `X.mu.Unlock()` removes, `defer X.mu.Unlock()` keeps the lock to the end of the function;
// branches are merged by union, a branch that ends in return/panic/continue/break does not
// flow on).  It records every direct acquisition, every call and every invocation of a
// registered callback (a func value taken from a `[]func(...)` struct field) together with
// the held set; callee summaries (locks possibly acquired, callbacks possibly invoked) are
// closed transitively.  Interface calls resolve to every method of that name declared in the
// scanned packages; a receiver whose type cannot be inferred resolves by method name too
// (over-approximation).  The wiring that crosses packages through values is asserted by a
// small table CHECKED against the source (lkWiringChecks); if a check fails, or a Lock/Unlock
// call cannot be attributed to a known mutex field, the facts are emitted as `none`.
//
// The same walk gives a syntactic guarded-by check (`unguardedAccesses`): a struct field that is
// declared above a mutex of its struct ("mu protects the above fields") and is written
// somewhere after construction must only be read or written where that mutex is held, lexically
// or at every call site of the enclosing unexported function.
//
// Assumed (not analysed): code outside the scanned packages (logger, prometheus, yamux, gin,
// the standard library) neither takes one of these mutexes nor calls back into them.
package main

import (
	"fmt"
	"go/ast"
	"go/parser"
	"go/token"
	"os"
	"path/filepath"
	"sort"
	"strconv"
	"strings"
)

func init() { extraFacts = append(extraFacts, lockFacts) }

const lkModule = "github.com/andydunstall/piko/"

// scanned package directories (relative to the repository root)
var lkPkgDirs = []string{"pkg/gossip", "server/cluster", "server/gossip", "server/upstream"}

// short names of the mutexes C20 speaks about; any other sync.Mutex/RWMutex field found in
// the scanned packages is named "<dir>:<Type>.<field>".
var lkAlias = map[string]string{
	"server/upstream:LoadBalancedManager.mu": "manager.mu",
	"server/upstream:Server.sessionsMu":      "server.sessionsMu",
	"server/cluster:State.mu":                "cluster.mu",
	"server/gossip:syncer.mu":                "syncer.mu",
	"pkg/gossip:clusterState.mu":             "gossip.mu",
	"pkg/gossip:accrualFailureDetector.mu":   "fd.mu",
}

type lkPkg struct {
	dir     string
	fset    *token.FileSet
	files   []*ast.File
	imports map[string]string        // local import name -> import path
	types   map[string]ast.Expr      // type name -> underlying type expression
	funcs   map[string]*ast.FuncDecl // "Type.Method" or "Func"
}

// lkTy is a type expression to be read in the context of package dir; ext = declared outside
// the scanned packages (library / builtin).
type lkTy struct {
	dir string
	e   ast.Expr
	ext bool
}

type lkEvent struct {
	kind    string   // "acq" | "call" | "cb" | "read" | "write" (of a field declared above a mutex)
	lock    string   // acq
	callees []string // call
	field   string   // cb: "<dir>:<Type>.<field>"
	held    []string
	where   string
}

type lkWorld struct {
	pkgs     map[string]*lkPkg
	locks    map[string]string   // "<dir>:<Type>.<field>" -> name
	cbFields map[string]bool     // "<dir>:<Type>.<field>" of type []func(...)
	regs     map[string][]string // cb field -> registered function keys
	regIn    map[string]string   // registrar "dir:Type.Method" -> cb field
	events   map[string][]lkEvent
	byName   map[string][]string // method name -> function keys
	guardBy  map[string]string   // "<dir>:<Type>.<field>" declared above a mutex of the same struct -> that mutex's name
	cbRet    map[string]string   // function key -> callback field a (copy of) which it returns
	problems []string
	notes    []string
}

func lkLoad(dir string) *lkPkg {
	p := &lkPkg{dir: dir, fset: token.NewFileSet(), imports: map[string]string{}, types: map[string]ast.Expr{}, funcs: map[string]*ast.FuncDecl{}}
	ents, err := os.ReadDir(filepath.Join(repo, dir))
	if err != nil {
		return nil
	}
	for _, e := range ents {
		n := e.Name()
		if e.IsDir() || !strings.HasSuffix(n, ".go") || strings.HasSuffix(n, "_test.go") {
			continue
		}
		f, err := parser.ParseFile(p.fset, filepath.Join(repo, dir, n), nil, 0)
		if err != nil {
			return nil
		}
		p.files = append(p.files, f)
		for _, im := range f.Imports {
			path, _ := strconv.Unquote(im.Path.Value)
			name := ""
			if im.Name != nil {
				name = im.Name.Name
			} else {
				parts := strings.Split(path, "/")
				name = parts[len(parts)-1]
				if len(parts) > 1 && len(name) > 1 && name[0] == 'v' && strings.Trim(name[1:], "0123456789") == "" {
					name = parts[len(parts)-2]
				}
			}
			p.imports[name] = path
		}
		for _, d := range f.Decls {
			switch x := d.(type) {
			case *ast.FuncDecl:
				if x.Body == nil {
					continue
				}
				key := x.Name.Name
				if x.Recv != nil {
					key = lkRecvName(x) + "." + key
				}
				p.funcs[key] = x
			case *ast.GenDecl:
				if x.Tok == token.TYPE {
					for _, sp := range x.Specs {
						ts := sp.(*ast.TypeSpec)
						p.types[ts.Name.Name] = ts.Type
					}
				}
			}
		}
	}
	return p
}

func lkRecvName(fd *ast.FuncDecl) string {
	if fd.Recv == nil || len(fd.Recv.List) == 0 {
		return ""
	}
	t := fd.Recv.List[0].Type
	for {
		switch x := t.(type) {
		case *ast.StarExpr:
			t = x.X
			continue
		case *ast.ParenExpr:
			t = x.X
			continue
		case *ast.IndexExpr:
			t = x.X
			continue
		case *ast.Ident:
			return x.Name
		}
		return ""
	}
}

func lkStrip(e ast.Expr) ast.Expr {
	for {
		switch x := e.(type) {
		case *ast.StarExpr:
			e = x.X
		case *ast.ParenExpr:
			e = x.X
		default:
			return e
		}
	}
}

// named resolves a type to "<dir>:<Name>" when it is declared in a scanned package.
func (w *lkWorld) named(t *lkTy) (string, bool) {
	if t == nil || t.ext || t.e == nil {
		return "", false
	}
	switch x := lkStrip(t.e).(type) {
	case *ast.Ident:
		if p := w.pkgs[t.dir]; p != nil {
			if _, ok := p.types[x.Name]; ok {
				return t.dir + ":" + x.Name, true
			}
		}
	case *ast.SelectorExpr:
		if id, ok := x.X.(*ast.Ident); ok {
			if p := w.pkgs[t.dir]; p != nil {
				if path, ok := p.imports[id.Name]; ok && strings.HasPrefix(path, lkModule) {
					d := strings.TrimPrefix(path, lkModule)
					if q := w.pkgs[d]; q != nil {
						if _, ok := q.types[x.Sel.Name]; ok {
							return d + ":" + x.Sel.Name, true
						}
					}
				}
			}
		}
	}
	return "", false
}

// isExternal: the type expression names something outside the scanned packages.
func (w *lkWorld) isExternal(t *lkTy) bool {
	if t == nil {
		return false
	}
	if t.ext {
		return true
	}
	switch x := lkStrip(t.e).(type) {
	case *ast.Ident:
		p := w.pkgs[t.dir]
		if p == nil {
			return true
		}
		_, ok := p.types[x.Name]
		return !ok // builtin (string, int, error, …)
	case *ast.SelectorExpr:
		_, ok := w.named(t)
		return !ok
	case *ast.InterfaceType, *ast.FuncType, *ast.ChanType:
		return false
	}
	return false
}

func (w *lkWorld) underlying(t *lkTy) *lkTy {
	for i := 0; i < 8 && t != nil && !t.ext; i++ {
		q, ok := w.named(t)
		if !ok {
			return t
		}
		d, n, _ := strings.Cut(q, ":")
		t = &lkTy{dir: d, e: w.pkgs[d].types[n]}
	}
	return t
}

func (w *lkWorld) isMutex(t *lkTy) bool {
	if t == nil || t.e == nil {
		return false
	}
	se, ok := lkStrip(t.e).(*ast.SelectorExpr)
	if !ok {
		return false
	}
	id, ok := se.X.(*ast.Ident)
	if !ok {
		return false
	}
	p := w.pkgs[t.dir]
	return p != nil && p.imports[id.Name] == "sync" && (se.Sel.Name == "Mutex" || se.Sel.Name == "RWMutex")
}

// field looks a struct field up (embedded structs are searched).
func (w *lkWorld) field(t *lkTy, name string, depth int) *lkTy {
	u := w.underlying(t)
	if u == nil || u.ext || depth > 4 {
		return nil
	}
	st, ok := lkStrip(u.e).(*ast.StructType)
	if !ok {
		return nil
	}
	for _, fl := range st.Fields.List {
		for _, nm := range fl.Names {
			if nm.Name == name {
				return &lkTy{dir: u.dir, e: fl.Type}
			}
		}
	}
	for _, fl := range st.Fields.List {
		if len(fl.Names) == 0 {
			if r := w.field(&lkTy{dir: u.dir, e: fl.Type}, name, depth+1); r != nil {
				return r
			}
		}
	}
	return nil
}

func (w *lkWorld) elem(t *lkTy) (key, val *lkTy) {
	u := w.underlying(t)
	if u == nil || u.ext {
		return nil, nil
	}
	switch x := lkStrip(u.e).(type) {
	case *ast.MapType:
		return &lkTy{dir: u.dir, e: x.Key}, &lkTy{dir: u.dir, e: x.Value}
	case *ast.ArrayType:
		return nil, &lkTy{dir: u.dir, e: x.Elt}
	case *ast.Ellipsis:
		return nil, &lkTy{dir: u.dir, e: x.Elt}
	}
	return nil, nil
}

// method finds the declaration key of method m on the named type q (embedded structs searched).
func (w *lkWorld) method(q, m string, depth int) (string, bool) {
	d, n, _ := strings.Cut(q, ":")
	p := w.pkgs[d]
	if p == nil || depth > 4 {
		return "", false
	}
	if _, ok := p.funcs[n+"."+m]; ok {
		return d + ":" + n + "." + m, true
	}
	if st, ok := lkStrip(p.types[n]).(*ast.StructType); ok {
		for _, fl := range st.Fields.List {
			if len(fl.Names) == 0 {
				if q2, ok := w.named(&lkTy{dir: d, e: fl.Type}); ok {
					if k, ok := w.method(q2, m, depth+1); ok {
						return k, true
					}
				}
			}
		}
	}
	return "", false
}

func (w *lkWorld) funcDecl(key string) (*lkPkg, *ast.FuncDecl) {
	d, n, _ := strings.Cut(key, ":")
	p := w.pkgs[d]
	if p == nil {
		return nil, nil
	}
	return p, p.funcs[n]
}

func (w *lkWorld) resultTypes(key string) []*lkTy {
	p, fd := w.funcDecl(key)
	if fd == nil || fd.Type.Results == nil {
		return nil
	}
	var out []*lkTy
	for _, fl := range fd.Type.Results.List {
		n := len(fl.Names)
		if n == 0 {
			n = 1
		}
		for i := 0; i < n; i++ {
			out = append(out, &lkTy{dir: p.dir, e: fl.Type})
		}
	}
	return out
}

// ---------------------------------------------------------------- per-function walk

type lkFn struct {
	w      *lkWorld
	p      *lkPkg
	key    string
	env    map[string]*lkTy
	cbVar  map[string]string // local identifier -> callback field it was taken from
	cbFrom map[string]string // local slice identifier -> callback field it copies
	goN    int
	defers []struct {
		call *ast.CallExpr
		held map[string]bool
	}
}

func lkCopy(h map[string]bool) map[string]bool {
	c := map[string]bool{}
	for k := range h {
		c[k] = true
	}
	return c
}

func lkUnion(a, b map[string]bool) map[string]bool {
	c := lkCopy(a)
	for k := range b {
		c[k] = true
	}
	return c
}

func lkKeys(h map[string]bool) []string {
	var ks []string
	for k := range h {
		ks = append(ks, k)
	}
	sort.Strings(ks)
	return ks
}

func (f *lkFn) pos(n ast.Node) string {
	ps := f.p.fset.Position(n.Pos())
	return fmt.Sprintf("%s/%s:%d", f.p.dir, filepath.Base(ps.Filename), ps.Line)
}

func (f *lkFn) emit(e lkEvent) { f.w.events[f.key] = append(f.w.events[f.key], e) }

// typeOf infers the static type of an expression from declarations only.
func (f *lkFn) typeOf(e ast.Expr) *lkTy {
	w := f.w
	switch x := e.(type) {
	case *ast.Ident:
		if t, ok := f.env[x.Name]; ok {
			return t
		}
		return nil
	case *ast.ParenExpr:
		return f.typeOf(x.X)
	case *ast.StarExpr:
		return f.typeOf(x.X)
	case *ast.UnaryExpr:
		if x.Op == token.AND {
			return f.typeOf(x.X)
		}
		if x.Op == token.ARROW {
			if t := w.underlying(f.typeOf(x.X)); t != nil && !t.ext {
				if ch, ok := lkStrip(t.e).(*ast.ChanType); ok {
					return &lkTy{dir: t.dir, e: ch.Value}
				}
			}
		}
		return nil
	case *ast.CompositeLit:
		if x.Type != nil {
			return &lkTy{dir: f.p.dir, e: x.Type}
		}
		return nil
	case *ast.TypeAssertExpr:
		if x.Type != nil {
			return &lkTy{dir: f.p.dir, e: x.Type}
		}
		return nil
	case *ast.IndexExpr:
		_, v := w.elem(f.typeOf(x.X))
		return v
	case *ast.SliceExpr:
		return f.typeOf(x.X)
	case *ast.SelectorExpr:
		if id, ok := x.X.(*ast.Ident); ok {
			if _, shadow := f.env[id.Name]; !shadow {
				if path, ok := f.p.imports[id.Name]; ok {
					if strings.HasPrefix(path, lkModule) {
						if q := w.pkgs[strings.TrimPrefix(path, lkModule)]; q != nil {
							return nil // package-level value of a scanned package: not needed
						}
					}
					return &lkTy{ext: true}
				}
			}
		}
		t := f.typeOf(x.X)
		if t == nil {
			return nil
		}
		if w.isExternal(t) {
			return &lkTy{ext: true}
		}
		return w.field(t, x.Sel.Name, 0)
	case *ast.CallExpr:
		// builtins that carry a type
		if id, ok := x.Fun.(*ast.Ident); ok {
			if _, local := f.env[id.Name]; !local {
				switch id.Name {
				case "make", "new":
					if len(x.Args) > 0 {
						return &lkTy{dir: f.p.dir, e: x.Args[0]}
					}
				case "append":
					if len(x.Args) > 0 {
						return f.typeOf(x.Args[0])
					}
				}
			}
		}
		cs, ext, _ := f.resolve(x)
		if ext {
			return &lkTy{ext: true}
		}
		if len(cs) == 1 {
			if rs := w.resultTypes(cs[0]); len(rs) > 0 {
				return rs[0]
			}
		}
		return nil
	}
	return nil
}

// lockOf: is `e` (the receiver of Lock/Unlock) a mutex field of a scanned struct?
func (f *lkFn) lockOf(e ast.Expr) (string, bool) {
	se, ok := lkStrip(e).(*ast.SelectorExpr)
	if !ok {
		return "", false
	}
	owner := f.typeOf(se.X)
	q, ok := f.w.named(owner)
	if !ok {
		return "", false
	}
	name, ok := f.w.locks[q+"."+se.Sel.Name]
	return name, ok
}

var lkLockMethods = map[string]int{"Lock": 1, "RLock": 1, "Unlock": -1, "RUnlock": -1, "TryLock": 1, "TryRLock": 1}

// resolve returns the possible callees of a call (keys of scanned functions); ext = the
// callee is outside the scanned packages (or a builtin/conversion); cb = the call invokes a
// registered callback of that field.
func (f *lkFn) resolve(c *ast.CallExpr) (callees []string, ext bool, cb string) {
	w := f.w
	switch fun := c.Fun.(type) {
	case *ast.ParenExpr:
		return f.resolve(&ast.CallExpr{Fun: fun.X, Args: c.Args})
	case *ast.FuncLit:
		return nil, true, "" // body is walked inline by the caller
	case *ast.Ident:
		if fld, ok := f.cbVar[fun.Name]; ok {
			return nil, false, fld
		}
		if _, local := f.env[fun.Name]; local {
			return nil, false, "" // func-typed local/parameter: unknown target
		}
		if _, ok := f.p.funcs[fun.Name]; ok {
			return []string{f.p.dir + ":" + fun.Name}, false, ""
		}
		return nil, true, "" // builtin or conversion
	case *ast.IndexExpr:
		// s.subscribers[i](...)
		if fld, ok := f.cbFieldOf(fun.X); ok {
			return nil, false, fld
		}
		return nil, false, ""
	case *ast.ArrayType, *ast.MapType, *ast.InterfaceType, *ast.StarExpr, *ast.ChanType, *ast.FuncType:
		return nil, true, "" // conversion
	case *ast.SelectorExpr:
		if id, ok := fun.X.(*ast.Ident); ok {
			if _, shadow := f.env[id.Name]; !shadow {
				if path, ok := f.p.imports[id.Name]; ok {
					if strings.HasPrefix(path, lkModule) {
						d := strings.TrimPrefix(path, lkModule)
						if q := w.pkgs[d]; q != nil {
							if _, ok := q.funcs[fun.Sel.Name]; ok {
								return []string{d + ":" + fun.Sel.Name}, false, ""
							}
							return nil, true, "" // conversion to a type of that package
						}
					}
					return nil, true, ""
				}
			}
		}
		t := f.typeOf(fun.X)
		if t != nil && w.isExternal(t) {
			return nil, true, ""
		}
		m := fun.Sel.Name
		if q, ok := w.named(t); ok {
			u := w.underlying(t)
			if _, isIface := lkStrip(u.e).(*ast.InterfaceType); isIface {
				return w.byName[m], false, "" // every scanned method of that name
			}
			if k, ok := w.method(q, m, 0); ok {
				return []string{k}, false, ""
			}
			// a func-typed field called as a method
			if ft := w.field(t, m, 0); ft != nil {
				return nil, false, ""
			}
			return nil, false, ""
		}
		// unknown receiver type: over-approximate by method name
		if cs := w.byName[m]; len(cs) > 0 {
			w.notes = append(w.notes, fmt.Sprintf("by-name %s at %s", m, f.pos(c)))
			return cs, false, ""
		}
		return nil, true, ""
	}
	return nil, false, ""
}

// cbFieldOf: expression is (a copy of) a `[]func` field of a scanned struct.
func (f *lkFn) cbFieldOf(e ast.Expr) (string, bool) {
	switch x := lkStrip(e).(type) {
	case *ast.Ident:
		fld, ok := f.cbFrom[x.Name]
		return fld, ok
	case *ast.SelectorExpr:
		if q, ok := f.w.named(f.typeOf(x.X)); ok {
			k := q + "." + x.Sel.Name
			if f.w.cbFields[k] {
				return k, true
			}
		}
	case *ast.SliceExpr:
		return f.cbFieldOf(x.X)
	case *ast.CallExpr:
		// subs := s.subscribersLocked()   (a helper returning a copy of the field)
		if cs, _, _ := f.resolve(x); len(cs) == 1 {
			if k, ok := f.w.cbRet[cs[0]]; ok {
				return k, true
			}
		}
	}
	return "", false
}

// mentionsCbField: some sub-expression is a callback field (append(subs, s.field...)).
func (f *lkFn) mentionsCbField(e ast.Expr) (string, bool) {
	found, ok := "", false
	ast.Inspect(e, func(n ast.Node) bool {
		if ok {
			return false
		}
		if x, is := n.(ast.Expr); is {
			if _, isLit := x.(*ast.FuncLit); isLit {
				return false
			}
			if k, yes := f.cbFieldOf(x); yes {
				found, ok = k, true
				return false
			}
		}
		return true
	})
	return found, ok
}

func (f *lkFn) call(c *ast.CallExpr, held map[string]bool) {
	// lock operations
	if se, ok := c.Fun.(*ast.SelectorExpr); ok {
		if dir, isLockM := lkLockMethods[se.Sel.Name]; isLockM && len(c.Args) == 0 {
			if name, ok := f.lockOf(se.X); ok {
				if dir > 0 {
					f.emit(lkEvent{kind: "acq", lock: name, held: lkKeys(held), where: f.pos(c)})
					held[name] = true
				} else {
					delete(held, name)
				}
				return
			}
			if t := f.typeOf(se.X); t == nil || f.w.isMutex(t) {
				f.w.problems = append(f.w.problems, fmt.Sprintf("unattributed %s() at %s", se.Sel.Name, f.pos(c)))
				return
			}
		}
	}
	if id, ok := c.Fun.(*ast.Ident); ok && (id.Name == "delete" || id.Name == "clear") && len(c.Args) > 0 {
		if _, local := f.env[id.Name]; !local {
			f.writeTarget(c.Args[0], held)
		}
	}
	// arguments first (nested calls, func literals run by the callee)
	for _, a := range c.Args {
		f.expr(a, held)
	}
	if se, ok := c.Fun.(*ast.SelectorExpr); ok {
		f.expr(se.X, held)
	}
	if fl, ok := c.Fun.(*ast.FuncLit); ok {
		f.block(fl.Body.List, lkCopy(held))
		return
	}
	// a notification of the gossip watcher: `<recv>.watcher.On…(…)` inside pkg/gossip
	if se, ok := c.Fun.(*ast.SelectorExpr); ok && f.p.dir == "pkg/gossip" && strings.HasPrefix(se.Sel.Name, "On") {
		if inner, ok := se.X.(*ast.SelectorExpr); ok && inner.Sel.Name == "watcher" {
			f.emit(lkEvent{kind: "notify", field: se.Sel.Name, held: lkKeys(held), where: f.pos(c)})
		}
	}
	cs, ext, cb := f.resolve(c)
	switch {
	case cb != "":
		f.emit(lkEvent{kind: "cb", field: cb, held: lkKeys(held), where: f.pos(c)})
	case len(cs) > 0:
		f.emit(lkEvent{kind: "call", callees: cs, held: lkKeys(held), where: f.pos(c)})
	case !ext && len(held) > 0:
		f.w.problems = append(f.w.problems, fmt.Sprintf("unresolved call under %v at %s", lkKeys(held), f.pos(c)))
	}
}

func (f *lkFn) expr(e ast.Expr, held map[string]bool) {
	if e == nil {
		return
	}
	switch x := e.(type) {
	case *ast.CallExpr:
		f.call(x, held)
	case *ast.FuncLit:
		// defined here, run by whoever receives it: walked inline with the current held set
		f.bindParams(x.Type)
		f.block(x.Body.List, lkCopy(held))
	case *ast.ParenExpr:
		f.expr(x.X, held)
	case *ast.SelectorExpr:
		f.access(x, "read", held)
		f.expr(x.X, held)
	case *ast.IndexExpr:
		f.expr(x.X, held)
		f.expr(x.Index, held)
	case *ast.SliceExpr:
		f.expr(x.X, held)
		f.expr(x.Low, held)
		f.expr(x.High, held)
		f.expr(x.Max, held)
	case *ast.StarExpr:
		f.expr(x.X, held)
	case *ast.UnaryExpr:
		f.expr(x.X, held)
	case *ast.BinaryExpr:
		f.expr(x.X, held)
		f.expr(x.Y, held)
	case *ast.KeyValueExpr:
		f.expr(x.Key, held)
		f.expr(x.Value, held)
	case *ast.TypeAssertExpr:
		f.expr(x.X, held)
	case *ast.CompositeLit:
		for _, el := range x.Elts {
			f.expr(el, held)
		}
	}
}

// access records a read/write of a struct field that is declared above a mutex of its struct.
func (f *lkFn) access(x *ast.SelectorExpr, kind string, held map[string]bool) {
	if q, ok := f.w.named(f.typeOf(x.X)); ok {
		k := q + "." + x.Sel.Name
		if _, ok := f.w.guardBy[k]; ok {
			f.emit(lkEvent{kind: kind, field: k, held: lkKeys(held), where: f.pos(x)})
		}
	}
}

// writeTarget: the field whose content an assignment / delete / ++ modifies (x.f, x.f[k], *x.f …).
func (f *lkFn) writeTarget(e ast.Expr, held map[string]bool) {
	for {
		switch x := e.(type) {
		case *ast.IndexExpr:
			e = x.X
			continue
		case *ast.StarExpr:
			e = x.X
			continue
		case *ast.ParenExpr:
			e = x.X
			continue
		case *ast.SliceExpr:
			e = x.X
			continue
		case *ast.SelectorExpr:
			f.access(x, "write", held)
		}
		return
	}
}

func (f *lkFn) bindParams(ft *ast.FuncType) {
	if ft == nil || ft.Params == nil {
		return
	}
	for _, fl := range ft.Params.List {
		for _, nm := range fl.Names {
			f.env[nm.Name] = &lkTy{dir: f.p.dir, e: fl.Type}
		}
	}
}

func (f *lkFn) assign(lhs []ast.Expr, rhs []ast.Expr) {
	set := func(l ast.Expr, t *lkTy) {
		if id, ok := l.(*ast.Ident); ok && id.Name != "_" && t != nil {
			f.env[id.Name] = t
		}
	}
	if len(rhs) == 1 && len(lhs) > 1 {
		switch r := rhs[0].(type) {
		case *ast.CallExpr:
			cs, ext, _ := f.resolve(r)
			if ext {
				for _, l := range lhs {
					set(l, &lkTy{ext: true})
				}
			} else if len(cs) == 1 {
				rs := f.w.resultTypes(cs[0])
				for i, l := range lhs {
					if i < len(rs) {
						set(l, rs[i])
					}
				}
			}
		case *ast.IndexExpr:
			_, v := f.w.elem(f.typeOf(r.X))
			set(lhs[0], v)
		case *ast.TypeAssertExpr:
			set(lhs[0], f.typeOf(r))
		case *ast.UnaryExpr:
			set(lhs[0], f.typeOf(r))
		}
	} else {
		for i, l := range lhs {
			if i < len(rhs) {
				set(l, f.typeOf(rhs[i]))
			}
		}
	}
	// copies of callback slices: subs := s.field / subs = append(subs, s.field...)
	for i, l := range lhs {
		if id, ok := l.(*ast.Ident); ok && i < len(rhs) {
			if k, yes := f.mentionsCbField(rhs[i]); yes {
				f.cbFrom[id.Name] = k
			}
		}
	}
}

func lkTerminates(list []ast.Stmt) bool {
	if len(list) == 0 {
		return false
	}
	switch x := list[len(list)-1].(type) {
	case *ast.ReturnStmt, *ast.BranchStmt:
		return true
	case *ast.ExprStmt:
		if c, ok := x.X.(*ast.CallExpr); ok {
			if id, ok := c.Fun.(*ast.Ident); ok && id.Name == "panic" {
				return true
			}
		}
	case *ast.BlockStmt:
		return lkTerminates(x.List)
	}
	return false
}

// block walks statements; `held` is updated in place to the set that may be held afterwards.
func (f *lkFn) block(list []ast.Stmt, held map[string]bool) map[string]bool {
	for _, s := range list {
		held = f.stmt(s, held)
	}
	return held
}

func (f *lkFn) stmt(s ast.Stmt, held map[string]bool) map[string]bool {
	switch x := s.(type) {
	case *ast.ExprStmt:
		f.expr(x.X, held)
	case *ast.AssignStmt:
		for _, r := range x.Rhs {
			f.expr(r, held)
		}
		for _, l := range x.Lhs {
			if _, isId := l.(*ast.Ident); !isId {
				f.writeTarget(l, held)
				f.expr(l, held)
			}
		}
		f.assign(x.Lhs, x.Rhs)
	case *ast.DeclStmt:
		if gd, ok := x.Decl.(*ast.GenDecl); ok && gd.Tok == token.VAR {
			for _, sp := range gd.Specs {
				vs := sp.(*ast.ValueSpec)
				for _, v := range vs.Values {
					f.expr(v, held)
				}
				if vs.Type != nil {
					for _, nm := range vs.Names {
						f.env[nm.Name] = &lkTy{dir: f.p.dir, e: vs.Type}
					}
				} else {
					var l []ast.Expr
					for _, nm := range vs.Names {
						l = append(l, nm)
					}
					f.assign(l, vs.Values)
				}
			}
		}
	case *ast.ReturnStmt:
		for _, r := range x.Results {
			f.expr(r, held)
		}
		// summary: the function hands out (a copy of) a callback slice
		if len(x.Results) == 1 && !strings.Contains(f.key, "$go") {
			if k, yes := f.mentionsCbField(x.Results[0]); yes {
				f.w.cbRet[f.key] = k
			}
		}
	case *ast.IncDecStmt:
		f.writeTarget(x.X, held)
		f.expr(x.X, held)
	case *ast.SendStmt:
		f.expr(x.Chan, held)
		f.expr(x.Value, held)
	case *ast.LabeledStmt:
		return f.stmt(x.Stmt, held)
	case *ast.BlockStmt:
		return f.block(x.List, held)
	case *ast.DeferStmt:
		if se, ok := x.Call.Fun.(*ast.SelectorExpr); ok {
			if dir, isLockM := lkLockMethods[se.Sel.Name]; isLockM && dir < 0 {
				if _, ok := f.lockOf(se.X); ok {
					return held // released at function end: stays held for the rest of the body
				}
			}
		}
		f.defers = append(f.defers, struct {
			call *ast.CallExpr
			held map[string]bool
		}{x.Call, lkCopy(held)})
	case *ast.GoStmt:
		// a new goroutine holds nothing; its arguments are evaluated here
		for _, a := range x.Call.Args {
			f.expr(a, held)
		}
		f.goN++
		g := &lkFn{w: f.w, p: f.p, key: fmt.Sprintf("%s$go%d", f.key, f.goN), env: f.env, cbVar: f.cbVar, cbFrom: f.cbFrom}
		if fl, ok := x.Call.Fun.(*ast.FuncLit); ok {
			g.finish(g.block(fl.Body.List, map[string]bool{}))
		} else {
			g.call(&ast.CallExpr{Fun: x.Call.Fun}, map[string]bool{})
		}
		if _, ok := f.w.events[g.key]; !ok {
			f.w.events[g.key] = nil
		}
	case *ast.IfStmt:
		if x.Init != nil {
			held = f.stmt(x.Init, held)
		}
		f.expr(x.Cond, held)
		out := map[string]bool{}
		flows := false
		b := f.block(x.Body.List, lkCopy(held))
		if !lkTerminates(x.Body.List) {
			out, flows = lkUnion(out, b), true
		}
		if x.Else != nil {
			e := f.stmt(x.Else, lkCopy(held))
			term := false
			if eb, ok := x.Else.(*ast.BlockStmt); ok {
				term = lkTerminates(eb.List)
			}
			if !term {
				out, flows = lkUnion(out, e), true
			}
		} else {
			out, flows = lkUnion(out, held), true
		}
		if !flows {
			return held
		}
		return out
	case *ast.ForStmt:
		if x.Init != nil {
			held = f.stmt(x.Init, held)
		}
		f.expr(x.Cond, held)
		b := f.block(x.Body.List, lkCopy(held))
		if x.Post != nil {
			b = f.stmt(x.Post, b)
		}
		if len(b) > len(held) { // a lock leaks out of an iteration: walk the body once more
			b = f.block(x.Body.List, lkUnion(held, b))
		}
		return lkUnion(held, b)
	case *ast.RangeStmt:
		f.expr(x.X, held)
		k, v := f.w.elem(f.typeOf(x.X))
		if id, ok := x.Key.(*ast.Ident); ok && id.Name != "_" && k != nil {
			f.env[id.Name] = k
		}
		if id, ok := x.Value.(*ast.Ident); ok && id.Name != "_" {
			if v != nil {
				f.env[id.Name] = v
			}
			if fld, yes := f.cbFieldOf(x.X); yes {
				f.cbVar[id.Name] = fld
			}
		}
		b := f.block(x.Body.List, lkCopy(held))
		if len(b) > len(held) {
			b = f.block(x.Body.List, lkUnion(held, b))
		}
		return lkUnion(held, b)
	case *ast.SwitchStmt:
		if x.Init != nil {
			held = f.stmt(x.Init, held)
		}
		f.expr(x.Tag, held)
		return f.clauses(x.Body.List, held)
	case *ast.TypeSwitchStmt:
		if x.Init != nil {
			held = f.stmt(x.Init, held)
		}
		if as, ok := x.Assign.(*ast.AssignStmt); ok {
			for _, r := range as.Rhs {
				f.expr(r, held)
			}
		} else if es, ok := x.Assign.(*ast.ExprStmt); ok {
			f.expr(es.X, held)
		}
		return f.clauses(x.Body.List, held)
	case *ast.SelectStmt:
		return f.clauses(x.Body.List, held)
	}
	return held
}

func (f *lkFn) clauses(list []ast.Stmt, held map[string]bool) map[string]bool {
	out := lkCopy(held) // no clause taken / fallthrough of an empty one
	for _, c := range list {
		var body []ast.Stmt
		h := lkCopy(held)
		switch cc := c.(type) {
		case *ast.CaseClause:
			for _, e := range cc.List {
				f.expr(e, h)
			}
			body = cc.Body
		case *ast.CommClause:
			if cc.Comm != nil {
				h = f.stmt(cc.Comm, h)
			}
			body = cc.Body
		}
		b := f.block(body, h)
		if !lkTerminates(body) {
			out = lkUnion(out, b)
		}
	}
	return out
}

// finish runs the deferred calls: each with what was held when it was registered plus what
// is still held at the end of the body.
func (f *lkFn) finish(end map[string]bool) {
	for i := len(f.defers) - 1; i >= 0; i-- {
		d := f.defers[i]
		f.call(d.call, lkUnion(d.held, end))
	}
	f.defers = nil
}

func (w *lkWorld) walkFunc(p *lkPkg, name string, fd *ast.FuncDecl) {
	f := &lkFn{w: w, p: p, key: p.dir + ":" + name, env: map[string]*lkTy{}, cbVar: map[string]string{}, cbFrom: map[string]string{}}
	if fd.Recv != nil {
		for _, fl := range fd.Recv.List {
			for _, nm := range fl.Names {
				f.env[nm.Name] = &lkTy{dir: p.dir, e: fl.Type}
			}
		}
	}
	f.bindParams(fd.Type)
	w.events[f.key] = nil
	f.finish(f.block(fd.Body.List, map[string]bool{}))
}

// ---------------------------------------------------------------- registrations & wiring checks

// findRegistrars: methods `func (s *T) M(f func(...)) { s.F = append(s.F, f) }`.
func (w *lkWorld) findRegistrars() {
	for _, d := range lkPkgDirs {
		p := w.pkgs[d]
		for name, fd := range p.funcs {
			if fd.Recv == nil || len(fd.Recv.List) == 0 || len(fd.Recv.List[0].Names) == 0 {
				continue
			}
			recv := fd.Recv.List[0].Names[0].Name
			tn := lkRecvName(fd)
			params := map[string]bool{}
			if fd.Type.Params != nil {
				for _, fl := range fd.Type.Params.List {
					if _, ok := fl.Type.(*ast.FuncType); ok {
						for _, nm := range fl.Names {
							params[nm.Name] = true
						}
					}
				}
			}
			if len(params) == 0 {
				continue
			}
			ast.Inspect(fd.Body, func(n ast.Node) bool {
				as, ok := n.(*ast.AssignStmt)
				if !ok || len(as.Lhs) != 1 || len(as.Rhs) != 1 {
					return true
				}
				ls, ok := as.Lhs[0].(*ast.SelectorExpr)
				if !ok {
					return true
				}
				if id, ok := ls.X.(*ast.Ident); !ok || id.Name != recv {
					return true
				}
				k := d + ":" + tn + "." + ls.Sel.Name
				if !w.cbFields[k] {
					return true
				}
				ce, ok := as.Rhs[0].(*ast.CallExpr)
				if !ok {
					return true
				}
				if id, ok := ce.Fun.(*ast.Ident); !ok || id.Name != "append" {
					return true
				}
				for _, a := range ce.Args[1:] {
					if id, ok := a.(*ast.Ident); ok && params[id.Name] {
						w.regIn[d+":"+name] = k
					}
				}
				return true
			})
		}
	}
}

// findRegistrations scans every non-test Go file of the repository for calls of a registrar
// method (by method name) and resolves the argument to a scanned method/function.
func (w *lkWorld) findRegistrations() {
	regNames := map[string]string{} // method name -> cb field
	for k, fld := range w.regIn {
		_, n, _ := strings.Cut(k, ":")
		_, m, _ := strings.Cut(n, ".")
		regNames[m] = fld
	}
	for fld := range w.cbFields {
		if _, ok := w.regs[fld]; !ok {
			w.regs[fld] = nil
		}
	}
	_ = filepath.Walk(repo, func(path string, info os.FileInfo, err error) error {
		if err != nil {
			return nil
		}
		if info.IsDir() {
			b := info.Name()
			if path != repo && (strings.HasPrefix(b, ".") || b == "vendor" || b == "node_modules") {
				return filepath.SkipDir
			}
			return nil
		}
		if !strings.HasSuffix(path, ".go") || strings.HasSuffix(path, "_test.go") {
			return nil
		}
		src, err := os.ReadFile(path)
		if err != nil {
			return nil
		}
		hit := false
		for m := range regNames {
			if strings.Contains(string(src), "."+m+"(") {
				hit = true
			}
		}
		if !hit {
			return nil
		}
		rel, _ := filepath.Rel(repo, filepath.Dir(path))
		p := w.pkgs[rel]
		if p == nil {
			// a registration outside the scanned packages: its target cannot be analysed
			fs := token.NewFileSet()
			af, err := parser.ParseFile(fs, path, src, 0)
			if err != nil {
				return nil
			}
			ast.Inspect(af, func(n ast.Node) bool {
				if ce, ok := n.(*ast.CallExpr); ok {
					if se, ok := ce.Fun.(*ast.SelectorExpr); ok {
						if _, ok := regNames[se.Sel.Name]; ok && len(ce.Args) == 1 {
							w.problems = append(w.problems, fmt.Sprintf("callback registered outside the scanned packages: %s in %s", se.Sel.Name, rel))
						}
					}
				}
				return true
			})
			return nil
		}
		return nil
	})
	// registrations inside the scanned packages, with type inference of the argument
	for _, d := range lkPkgDirs {
		p := w.pkgs[d]
		for name, fd := range p.funcs {
			f := &lkFn{w: w, p: p, key: d + ":" + name, env: map[string]*lkTy{}, cbVar: map[string]string{}, cbFrom: map[string]string{}}
			if fd.Recv != nil {
				for _, fl := range fd.Recv.List {
					for _, nm := range fl.Names {
						f.env[nm.Name] = &lkTy{dir: d, e: fl.Type}
					}
				}
			}
			f.bindParams(fd.Type)
			ast.Inspect(fd.Body, func(n ast.Node) bool {
				ce, ok := n.(*ast.CallExpr)
				if !ok {
					return true
				}
				se, ok := ce.Fun.(*ast.SelectorExpr)
				if !ok {
					return true
				}
				fld, ok := regNames[se.Sel.Name]
				if !ok || len(ce.Args) != 1 {
					return true
				}
				// the receiver must be (or may be) the registrar's type
				if q, ok := w.named(f.typeOf(se.X)); ok {
					if k, ok := w.method(q, se.Sel.Name, 0); !ok || w.regIn[k] != fld {
						return true
					}
				}
				switch a := ce.Args[0].(type) {
				case *ast.SelectorExpr: // method value x.m
					if q, ok := w.named(f.typeOf(a.X)); ok {
						if k, ok := w.method(q, a.Sel.Name, 0); ok {
							w.regs[fld] = append(w.regs[fld], k)
							return true
						}
					}
					w.problems = append(w.problems, "unresolvable callback argument at "+f.pos(ce))
				case *ast.Ident:
					if _, ok := p.funcs[a.Name]; ok {
						w.regs[fld] = append(w.regs[fld], d+":"+a.Name)
						return true
					}
					w.problems = append(w.problems, "unresolvable callback argument at "+f.pos(ce))
				default:
					w.problems = append(w.problems, "callback argument is not a method value at "+f.pos(ce))
				}
				return true
			})
		}
	}
	for k := range w.regs {
		sort.Strings(w.regs[k])
	}
}

// hasImplAssertion: `var _ <iface> = &<impl>{}` in package dir.
func (w *lkWorld) hasImplAssertion(dir, ifaceText, impl string) bool {
	p := w.pkgs[dir]
	if p == nil {
		return false
	}
	for _, f := range p.files {
		for _, d := range f.Decls {
			gd, ok := d.(*ast.GenDecl)
			if !ok || gd.Tok != token.VAR {
				continue
			}
			for _, sp := range gd.Specs {
				vs := sp.(*ast.ValueSpec)
				if len(vs.Names) != 1 || vs.Names[0].Name != "_" || vs.Type == nil || len(vs.Values) != 1 {
					continue
				}
				txt := ""
				switch t := vs.Type.(type) {
				case *ast.Ident:
					txt = t.Name
				case *ast.SelectorExpr:
					if id, ok := t.X.(*ast.Ident); ok {
						txt = id.Name + "." + t.Sel.Name
					}
				}
				if txt != ifaceText {
					continue
				}
				if ue, ok := vs.Values[0].(*ast.UnaryExpr); ok && ue.Op == token.AND {
					if cl, ok := ue.X.(*ast.CompositeLit); ok {
						if id, ok := cl.Type.(*ast.Ident); ok && id.Name == impl {
							return true
						}
					}
				}
			}
		}
	}
	return false
}

// lkWiringChecks: the explicit table of cross-package wiring, each entry verified on the source.
func (w *lkWorld) lkWiringChecks() []string {
	var bad []string
	chk := func(ok bool, what string) {
		if !ok {
			bad = append(bad, what)
		}
	}
	// gossip.Watcher is implemented by *syncer (so watcher.On… under gossip.mu reaches syncer.On…)
	// (type names through resolveName: a renamed type keeps its role)
	syncerT := resolveName("server/gossip", "syncer")
	fdIface, fdImpl := resolveName("pkg/gossip", "failureDetector"), resolveName("pkg/gossip", "accrualFailureDetector")
	chk(w.hasImplAssertion("server/gossip", "gossip.Watcher", syncerT), "var _ gossip.Watcher = &syncer{} not found")
	for _, m := range []string{"OnJoin", "OnLeave", "OnReachable", "OnUnreachable", "OnUpsertKey", "OnDeleteKey", "OnExpired"} {
		_, ok := w.method("server/gossip:"+syncerT, m, 0)
		chk(ok, "syncer."+m+" not found")
	}
	// failureDetector is implemented by *accrualFailureDetector
	chk(w.hasImplAssertion("pkg/gossip", fdIface, fdImpl), "var _ failureDetector = &accrualFailureDetector{} not found")
	// cluster.State local-endpoint subscribers: syncer.Sync registers a method of the syncer
	found := false
	for fld, ks := range w.regs {
		if !strings.HasPrefix(fld, "server/cluster:State.") {
			continue
		}
		for _, k := range ks {
			if strings.HasPrefix(k, "server/gossip:"+syncerT+".") {
				found = true
			}
		}
	}
	chk(found, "syncer.Sync does not register a syncer method with cluster.State.OnLocalEndpointUpdate")
	// gossiper is *gossip.Gossip, which forwards to clusterState: NewGossip calls syncer.Sync(gossip.New(...))
	{
		ok := false
		if p, fd := w.funcDecl("server/gossip:NewGossip"); fd != nil {
			f := &lkFn{w: w, p: p, key: "check", env: map[string]*lkTy{}, cbVar: map[string]string{}, cbFrom: map[string]string{}}
			f.bindParams(fd.Type)
			for _, s := range fd.Body.List {
				if as, isAs := s.(*ast.AssignStmt); isAs {
					f.assign(as.Lhs, as.Rhs)
				}
			}
			ast.Inspect(fd.Body, func(n ast.Node) bool {
				ce, isCall := n.(*ast.CallExpr)
				if !isCall || len(ce.Args) != 1 {
					return true
				}
				se, isSel := ce.Fun.(*ast.SelectorExpr)
				if !isSel || se.Sel.Name != "Sync" {
					return true
				}
				r, _ := w.named(f.typeOf(se.X))
				a, _ := w.named(f.typeOf(ce.Args[0]))
				if r == "server/gossip:"+syncerT && a == "pkg/gossip:Gossip" {
					ok = true
				}
				return true
			})
		}
		chk(ok, "NewGossip does not call syncer.Sync with a *gossip.Gossip")
		for _, m := range []string{"UpsertLocal", "DeleteLocal"} {
			_, has := w.method("pkg/gossip:Gossip", m, 0)
			chk(has, "gossip.Gossip."+m+" not found")
		}
	}
	return bad
}

// ---------------------------------------------------------------- main

type lkResult struct {
	ok        bool
	names     []string
	edges     [][2]string
	witness   map[[2]string]string
	cbUnder   map[string][]string // lock name -> callback invocation sites under it
	problems  []string
	notes     []string
	regs      map[string][]string
	unguarded []string
	guardBy   map[string]string
	// watcher notifications of pkg/gossip: "<function>:<callback>" with / without gossip.mu held
	notifyLocked, notifyUnlocked []string
}

func lkAnalyse() *lkResult {
	w := &lkWorld{pkgs: map[string]*lkPkg{}, locks: map[string]string{}, cbFields: map[string]bool{},
		regs: map[string][]string{}, regIn: map[string]string{}, events: map[string][]lkEvent{}, byName: map[string][]string{}, guardBy: map[string]string{}, cbRet: map[string]string{}}
	res := &lkResult{witness: map[[2]string]string{}, cbUnder: map[string][]string{}}
	for _, d := range lkPkgDirs {
		p := lkLoad(d)
		if p == nil {
			res.problems = append(res.problems, "cannot parse package "+d)
			return res
		}
		w.pkgs[d] = p
	}
	// mutex fields, callback-slice fields, methods by name
	for _, d := range lkPkgDirs {
		p := w.pkgs[d]
		var tnames []string
		for tn := range p.types {
			tnames = append(tnames, tn)
		}
		sort.Strings(tnames)
		for _, tn := range tnames {
			st, ok := lkStrip(p.types[tn]).(*ast.StructType)
			if !ok {
				continue
			}
			var above []string
			for _, fl := range st.Fields.List {
				for _, nm := range fl.Names {
					k := d + ":" + tn + "." + nm.Name
					if w.isMutex(&lkTy{dir: d, e: fl.Type}) {
						name, ok := lkAlias[k]
						if !ok {
							// the struct type or the mutex field may have been renamed: the alias of the
							// pinned (type, field) whose current names are these
							for pk, alias := range lkAlias {
								pd := pk[:strings.Index(pk, ":")]
								rest := pk[len(pd)+1:]
								pt, pf := rest[:strings.Index(rest, ".")], rest[strings.Index(rest, ".")+1:]
								if pd != d || resolveName(pd, pt) != tn {
									continue
								}
								if pf == nm.Name || lkFieldRenamed(pd, pt, pf) == nm.Name {
									name, ok = alias, true
								}
							}
						}
						if !ok {
							name = k
						}
						w.locks[k] = name
						// "mu protects the above fields"
						for _, a := range above {
							w.guardBy[a] = name
						}
						above = nil
					} else {
						above = append(above, k)
					}
					if at, ok := fl.Type.(*ast.ArrayType); ok {
						if _, ok := at.Elt.(*ast.FuncType); ok {
							w.cbFields[k] = true
						}
					}
				}
			}
		}
		var fnames []string
		for fn := range p.funcs {
			fnames = append(fnames, fn)
		}
		sort.Strings(fnames)
		for _, fn := range fnames {
			if _, m, ok := strings.Cut(fn, "."); ok {
				w.byName[m] = append(w.byName[m], d+":"+fn)
			}
		}
	}
	w.findRegistrars()
	w.findRegistrations()
	res.regs = w.regs
	for _, b := range w.lkWiringChecks() {
		w.problems = append(w.problems, "wiring: "+b)
	}
	// walk
	for _, d := range lkPkgDirs {
		p := w.pkgs[d]
		var fnames []string
		for fn := range p.funcs {
			fnames = append(fnames, fn)
		}
		sort.Strings(fnames)
		for _, fn := range fnames {
			w.walkFunc(p, fn, p.funcs[fn])
		}
	}
	// second pass: callers of helpers that return a callback slice (w.cbRet of the first pass)
	if len(w.cbRet) > 0 {
		keepProblems, keepNotes := w.problems, w.notes
		w.problems, w.notes = nil, nil
		for _, d := range lkPkgDirs {
			p := w.pkgs[d]
			var fnames []string
			for fn := range p.funcs {
				fnames = append(fnames, fn)
			}
			sort.Strings(fnames)
			for _, fn := range fnames {
				for k := range w.events {
					if k == p.dir+":"+fn || strings.HasPrefix(k, p.dir+":"+fn+"$go") {
						delete(w.events, k)
					}
				}
				w.walkFunc(p, fn, p.funcs[fn])
			}
		}
		_ = keepProblems
		_ = keepNotes
	}
	// summaries: locks a function may take, callbacks it may invoke (transitively)
	acq := map[string]map[string]bool{}
	cbs := map[string]map[string]bool{}
	for k := range w.events {
		acq[k], cbs[k] = map[string]bool{}, map[string]bool{}
	}
	targets := func(e lkEvent) []string {
		if e.kind == "cb" {
			return w.regs[e.field]
		}
		return e.callees
	}
	for changed := true; changed; {
		changed = false
		for k, evs := range w.events {
			for _, e := range evs {
				if e.kind == "acq" && !acq[k][e.lock] {
					acq[k][e.lock], changed = true, true
				}
				if e.kind == "cb" {
					site := k + "@" + e.field
					if !cbs[k][site] {
						cbs[k][site], changed = true, true
					}
				}
				for _, c := range targets(e) {
					for l := range acq[c] {
						if !acq[k][l] {
							acq[k][l], changed = true, true
						}
					}
					for s := range cbs[c] {
						if !cbs[k][s] {
							cbs[k][s], changed = true, true
						}
					}
				}
			}
		}
	}
	// edges
	es := map[[2]string]bool{}
	add := func(h, l, wit string) {
		e := [2]string{h, l}
		if !es[e] {
			es[e] = true
			res.witness[e] = wit
		} else if wit < res.witness[e] {
			res.witness[e] = wit
		}
	}
	cbu := map[string]map[string]bool{}
	var fkeys []string
	for k := range w.events {
		fkeys = append(fkeys, k)
	}
	sort.Strings(fkeys)
	short := func(s string) string {
		s = strings.TrimPrefix(s, "server/")
		return strings.Replace(s, ":", ".", 1)
	}
	for _, k := range fkeys {
		for _, e := range w.events[k] {
			for _, h := range e.held {
				switch e.kind {
				case "acq":
					add(h, e.lock, short(k)+" ("+e.where+")")
				default:
					for _, c := range targets(e) {
						for l := range acq[c] {
							add(h, l, short(k)+" -> "+short(c)+" ("+e.where+")")
						}
						for s := range cbs[c] {
							if cbu[h] == nil {
								cbu[h] = map[string]bool{}
							}
							cbu[h][short(s)+" via "+short(k)] = true
						}
					}
					if e.kind == "cb" {
						if cbu[h] == nil {
							cbu[h] = map[string]bool{}
						}
						cbu[h][short(k)+"@"+short(e.field)] = true
					}
				}
			}
		}
	}
	// guarded-field check: every access to a MUTABLE field declared above a mutex of its struct
	// ("mu protects the above fields") happens with that mutex held, lexically or at every call
	// site of the enclosing unexported function.
	mutable := map[string]bool{}
	for _, evs := range w.events {
		for _, e := range evs {
			if e.kind == "write" {
				mutable[e.field] = true
			}
		}
	}
	type lkSite struct {
		caller string
		held   []string
	}
	callers := map[string][]lkSite{}
	for _, k := range fkeys {
		for _, e := range w.events[k] {
			if e.kind == "call" || e.kind == "cb" {
				for _, c := range targets(e) {
					callers[c] = append(callers[c], lkSite{k, e.held})
				}
			}
		}
	}
	unexported := func(k string) bool {
		if strings.Contains(k, "$go") {
			return false
		}
		n := k[strings.LastIndexAny(k, ":.")+1:]
		return n != "" && n[0] >= 'a' && n[0] <= 'z'
	}
	allLocks := map[string]bool{}
	for _, n := range w.locks {
		allLocks[n] = true
	}
	entry := map[string]map[string]bool{}
	for _, k := range fkeys {
		if unexported(k) && len(callers[k]) > 0 {
			entry[k] = lkCopy(allLocks)
		} else {
			entry[k] = map[string]bool{}
		}
	}
	for changed := true; changed; {
		changed = false
		for _, k := range fkeys {
			if !unexported(k) || len(callers[k]) == 0 {
				continue
			}
			var inter map[string]bool
			for _, c := range callers[k] {
				h := lkCopy(entry[c.caller])
				for _, l := range c.held {
					h[l] = true
				}
				if inter == nil {
					inter = h
				} else {
					for l := range inter {
						if !h[l] {
							delete(inter, l)
						}
					}
				}
			}
			if len(inter) != len(entry[k]) {
				entry[k], changed = inter, true
			}
		}
	}
	ung := map[string]bool{}
	for _, k := range fkeys {
		for _, e := range w.events[k] {
			if (e.kind != "read" && e.kind != "write") || !mutable[e.field] {
				continue
			}
			l := w.guardBy[e.field]
			ok := entry[k][l]
			for _, h := range e.held {
				if h == l {
					ok = true
				}
			}
			if !ok {
				ung[fmt.Sprintf("%s of %s without %s in %s (%s)", e.kind, short(e.field), l, short(k), e.where)] = true
			}
		}
	}
	res.unguarded = lkKeys(ung)
	nl, nu := map[string]bool{}, map[string]bool{}
	for _, k := range fkeys {
		for _, e := range w.events[k] {
			if e.kind != "notify" {
				continue
			}
			ok := entry[k]["gossip.mu"]
			for _, h := range e.held {
				if h == "gossip.mu" {
					ok = true
				}
			}
			if ok {
				nl[short(k)+":"+e.field] = true
			} else {
				nu[fmt.Sprintf("%s:%s (%s)", short(k), e.field, e.where)] = true
			}
		}
	}
	res.notifyLocked, res.notifyUnlocked = lkKeys(nl), lkKeys(nu)
	res.guardBy = map[string]string{}
	for k, l := range w.guardBy {
		if mutable[k] {
			res.guardBy[short(k)] = l
		}
	}
	for e := range es {
		res.edges = append(res.edges, e)
	}
	sort.Slice(res.edges, func(i, j int) bool {
		if res.edges[i][0] != res.edges[j][0] {
			return res.edges[i][0] < res.edges[j][0]
		}
		return res.edges[i][1] < res.edges[j][1]
	})
	seen := map[string]bool{}
	for _, n := range w.locks {
		if !seen[n] {
			seen[n] = true
			res.names = append(res.names, n)
		}
	}
	sort.Strings(res.names)
	for l, m := range cbu {
		res.cbUnder[l] = lkKeys(m)
	}
	sort.Strings(w.problems)
	res.problems = lkDedup(w.problems)
	sort.Strings(w.notes)
	res.notes = lkDedup(w.notes)
	res.ok = len(res.problems) == 0
	return res
}

func lkDedup(xs []string) []string {
	var out []string
	for i, x := range xs {
		if i == 0 || x != xs[i-1] {
			out = append(out, x)
		}
	}
	return out
}

func lkStrList(xs []string) string {
	var q []string
	for _, x := range xs {
		q = append(q, leanStr(x))
	}
	return "[" + strings.Join(q, ", ") + "]"
}

func lkPairList(es [][2]string) string {
	var q []string
	for _, e := range es {
		q = append(q, "("+leanStr(e[0])+", "+leanStr(e[1])+")")
	}
	return "[" + strings.Join(q, ", ") + "]"
}

func lockFacts() string {
	r := lkAnalyse()
	var b strings.Builder
	b.WriteString("-- G5 lock order (C20): mutex fields of pkg/gossip, server/cluster, server/gossip, server/upstream;\n")
	b.WriteString("-- edge (a, b) = some function may acquire b (directly or through resolved calls/callbacks) while a is held.\n")
	fmt.Fprintf(&b, "def lockNames : List String := %s\n", lkStrList(r.names))
	for _, p := range r.problems {
		fmt.Fprintf(&b, "-- PROBLEM: %s\n", p)
	}
	if !r.ok {
		b.WriteString("def lockEdges : Option (List (String × String)) := none\n")
		b.WriteString("def selfEdges : Option (List String) := none\n")
		b.WriteString("def callbacksUnderClusterMu : Option (List String) := none\n")
		b.WriteString("def callbacksUnderLock : Option (List (String × String)) := none\n")
		b.WriteString("def unguardedAccesses : Option (List String) := none\n")
		b.WriteString("def watcherNotifyLocked : Option (List String) := none\n")
		b.WriteString("def watcherNotifyUnlocked : Option (List String) := none\n")
		b.WriteString("def watcherCallbacksLocked : Option (List String) := none\n")
		return b.String()
	}
	for _, e := range r.edges {
		fmt.Fprintf(&b, "--   %s -> %s : %s\n", e[0], e[1], r.witness[e])
	}
	fmt.Fprintf(&b, "def lockEdges : Option (List (String × String)) := some %s\n", lkPairList(r.edges))
	var self []string
	for _, e := range r.edges {
		if e[0] == e[1] {
			self = append(self, e[0])
		}
	}
	b.WriteString("-- locks that may be re-acquired while already held (sync.Mutex is not re-entrant: a deadlock)\n")
	fmt.Fprintf(&b, "def selfEdges : Option (List String) := some %s\n", lkStrList(self))
	var flds []string
	for f := range r.regs {
		flds = append(flds, f)
	}
	sort.Strings(flds)
	for _, f := range flds {
		fmt.Fprintf(&b, "--   callbacks registered in %s: %s\n", f, strings.Join(r.regs[f], ", "))
	}
	b.WriteString("-- subscriber callbacks (func values of a []func struct field) invoked while cluster.State.mu may be held\n")
	fmt.Fprintf(&b, "def callbacksUnderClusterMu : Option (List String) := some %s\n", lkStrList(r.cbUnder["cluster.mu"]))
	var all [][2]string
	var ls []string
	for l := range r.cbUnder {
		ls = append(ls, l)
	}
	sort.Strings(ls)
	for _, l := range ls {
		for _, s := range r.cbUnder[l] {
			all = append(all, [2]string{l, s})
		}
	}
	fmt.Fprintf(&b, "def callbacksUnderLock : Option (List (String × String)) := some %s\n", lkPairList(all))
	b.WriteString("-- guarded fields: mutable struct fields declared above a mutex of their struct (\"mu protects the above fields\")\n")
	var gks []string
	for k := range r.guardBy {
		gks = append(gks, k)
	}
	sort.Strings(gks)
	for _, k := range gks {
		fmt.Fprintf(&b, "--   %s guarded by %s\n", k, r.guardBy[k])
	}
	b.WriteString("-- accesses to a guarded field at a point where its mutex is not held (lexically, or at every call site of the unexported function)\n")
	fmt.Fprintf(&b, "def unguardedAccesses : Option (List String) := some %s\n", lkStrList(r.unguarded))
	b.WriteString("-- watcher notifications (`….watcher.On…(…)` in pkg/gossip) made while gossip.mu is held (lexically, or at every\n")
	b.WriteString("-- call site of the unexported function): state change and notification are one atomic step (C14)\n")
	fmt.Fprintf(&b, "def watcherNotifyLocked : Option (List String) := some %s\n", lkStrList(r.notifyLocked))
	cbs := map[string]bool{}
	for _, x := range r.notifyLocked {
		cbs[x[strings.LastIndex(x, ":")+1:]] = true
	}
	b.WriteString("-- the callbacks among them\n")
	fmt.Fprintf(&b, "def watcherCallbacksLocked : Option (List String) := some %s\n", lkStrList(lkKeys(cbs)))
	b.WriteString("-- ... and those made at a point where gossip.mu is not held\n")
	fmt.Fprintf(&b, "def watcherNotifyUnlocked : Option (List String) := some %s\n", lkStrList(r.notifyUnlocked))
	for _, n := range r.notes {
		fmt.Fprintf(&b, "--   note: %s\n", n)
	}
	return b.String()
}

// lkFieldRenamed: the current name of field `f` of the pinned struct type `t` (same position and type).
func lkFieldRenamed(dir, t, f string) string {
	loadBaseline()
	base := sigBaseline[dir]
	cur := sigCurrent[dir]
	if cur == nil {
		cur, _ = pkgDecls(filepath.Join(repo, dir))
		sigCurrent[dir] = cur
	}
	b, ok := base[t]
	if !ok || cur == nil {
		return f
	}
	typeRen := typeRenames(base, cur)
	c, ok := cur[resolveName(dir, t)]
	if !ok {
		return f
	}
	bf, cf := structFields(substTypes(b.Sig, typeRen)), structFields(c.Sig)
	if len(bf) != len(cf) {
		return f
	}
	for i := range bf {
		if bf[i][0] == f && bf[i][1] == cf[i][1] {
			return cf[i][0]
		}
	}
	return f
}
