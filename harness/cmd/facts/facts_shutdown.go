package main

// G6 (C18): the ORDER OF CALLS in server.Server.Shutdown (server/server.go) and in
// upstream.Server.Shutdown (server/upstream/server.go), extracted syntactically: every call
// whose callee is a selector chain rooted at the method receiver, in source order, except the
// logger and the `shutdown` flag.  Props/C18 proves that the model's `shutdownActions` is
// exactly this order and that the upstream server is shut down before the proxy server and
// before Leave, and Leave before the gossip sockets are closed - so a reordering of the phases
// stops Props.C18 from building.

import (
	"go/ast"
	"strings"
)

func init() { extraFacts = append(extraFacts, shutdownFacts) }

// receiverCalls lists the calls `recv.a.b(...)` in the body of method `name` of type `typ`
// (pointer or value receiver) of the file, in source order, rendered as "a.b".
func receiverCalls(rel, typ, name string, skip map[string]bool) ([]string, bool) {
	_, f := parseFile(rel)
	if f == nil {
		return nil, false
	}
	for _, d := range f.Decls {
		fd, ok := d.(*ast.FuncDecl)
		if !ok || fd.Name.Name != name || fd.Recv == nil || len(fd.Recv.List) != 1 || fd.Body == nil {
			continue
		}
		rt := fd.Recv.List[0].Type
		if st, ok := rt.(*ast.StarExpr); ok {
			rt = st.X
		}
		if id, ok := rt.(*ast.Ident); !ok || id.Name != typ {
			continue
		}
		if len(fd.Recv.List[0].Names) != 1 {
			return nil, false
		}
		recv := fd.Recv.List[0].Names[0].Name
		var calls []string
		ast.Inspect(fd.Body, func(n ast.Node) bool {
			// deferred calls and function literals do not run in statement order
			switch n.(type) {
			case *ast.DeferStmt, *ast.FuncLit, *ast.GoStmt:
				return false
			}
			ce, ok := n.(*ast.CallExpr)
			if !ok {
				return true
			}
			var parts []string
			e := ce.Fun
			for {
				se, ok := e.(*ast.SelectorExpr)
				if !ok {
					break
				}
				parts = append([]string{se.Sel.Name}, parts...)
				e = se.X
			}
			if id, ok := e.(*ast.Ident); ok && id.Name == recv && len(parts) > 0 && !skip[parts[0]] {
				calls = append(calls, strings.Join(parts, "."))
			}
			return true
		})
		return calls, true
	}
	return nil, false
}

func leanOptStrList(xs []string, ok bool) string {
	if !ok {
		return "none"
	}
	var qs []string
	for _, x := range xs {
		qs = append(qs, leanStr(x))
	}
	return "some [" + strings.Join(qs, ", ") + "]"
}

func shutdownFacts() string {
	var b strings.Builder
	b.WriteString("/-! ### G6: order of calls in the shutdown methods (C18) -/\n")
	skip := map[string]bool{"logger": true, "shutdown": true}
	calls, ok := receiverCalls("server/server.go", "Server", "Shutdown", skip)
	b.WriteString("/-- calls on the receiver in `server.Server.Shutdown`, in source order -/\n")
	b.WriteString("def shutdownCalls : Option (List String) := " + leanOptStrList(calls, ok) + "\n")
	calls, ok = receiverCalls("server/upstream/server.go", "Server", "Shutdown", skip)
	b.WriteString("/-- calls on the receiver in `upstream.Server.Shutdown`, in source order -/\n")
	b.WriteString("def upstreamShutdownCalls : Option (List String) := " + leanOptStrList(calls, ok) + "\n")
	calls, ok = receiverCalls("server/server.go", "Server", "shutdownUpstreamServer", skip)
	b.WriteString("/-- calls on the receiver in `server.Server.shutdownUpstreamServer`, in source order -/\n")
	b.WriteString("def shutdownUpstreamServerCalls : Option (List String) := " + leanOptStrList(calls, ok) + "\n")
	return b.String()
}
