package main

// Rename tolerance for the name-based facts (G1 constants, G2 wire tags, the detector arguments, G8): when a
// declaration the extractor looks up by name no longer exists under that name, harness/shims/baseline.json
// (the signatures of the pinned tree, recorded by mkshims) is consulted; if exactly one declaration that is new in
// the current tree has the same kind and signature (a constant: the same value or the same position in its iota
// block; a struct: the same fields and tags, or the same field types in order), the fact is read from it.
// (pkgDecls, structFields, substTypes and typeRenames are the same functions as in cmd/mkshims.)

import (
	"bytes"
	"encoding/json"
	"fmt"
	"go/ast"
	"go/parser"
	"go/printer"
	"go/token"
	"os"
	"path/filepath"
	"regexp"
	"sort"
	"strings"
)

type sigEntry struct {
	Kind string `json:"kind"` // func | method | type | const | var
	Recv string `json:"recv,omitempty"`
	Sig  string `json:"sig"`
}

// pkgDecls: name -> signature of every package-level declaration (methods as "Recv.name").
func pkgDecls(dir string) (map[string]sigEntry, error) {
	fset := token.NewFileSet()
	pkgs, err := parser.ParseDir(fset, dir, func(fi os.FileInfo) bool {
		return !strings.HasSuffix(fi.Name(), "_test.go") && !strings.HasPrefix(fi.Name(), "zz_verif_")
	}, 0)
	if err != nil {
		return nil, err
	}
	out := map[string]sigEntry{}
	show := func(n any) string {
		var b bytes.Buffer
		_ = printer.Fprint(&b, fset, n)
		// one line, still parseable: newlines inside braces become `;`
		t := b.String()
		t = regexp.MustCompile(`\{\s*\n`).ReplaceAllString(t, "{ ")
		t = regexp.MustCompile(`\n\s*\}`).ReplaceAllString(t, " }")
		t = strings.ReplaceAll(t, "\n", "; ")
		t = strings.Join(strings.Fields(t), " ")
		for strings.Contains(t, "; ;") {
			t = strings.ReplaceAll(t, "; ;", ";")
		}
		return t
	}
	for _, p := range pkgs {
		for _, f := range p.Files {
			for _, d := range f.Decls {
				switch d := d.(type) {
				case *ast.FuncDecl:
					ft := stripNames(d.Type)
					if d.Recv != nil && len(d.Recv.List) == 1 {
						recv := show(d.Recv.List[0].Type)
						out[strings.TrimPrefix(recv, "*")+"."+d.Name.Name] = sigEntry{Kind: "method", Recv: recv, Sig: show(ft)}
					} else {
						out[d.Name.Name] = sigEntry{Kind: "func", Sig: show(ft)}
					}
				case *ast.GenDecl:
					// a const block that uses iota: every constant is identified by its position in the
					// block together with the block's first (type, expression)
					iotaHead := ""
					for si, s := range d.Specs {
						switch s := s.(type) {
						case *ast.TypeSpec:
							out[s.Name.Name] = sigEntry{Kind: "type", Sig: show(s.Type)}
						case *ast.ValueSpec:
							kind := "var"
							if d.Tok == token.CONST {
								kind = "const"
							}
							if kind == "const" && len(s.Values) > 0 && strings.Contains(show(s.Values[0]), "iota") {
								iotaHead = "= " + show(s.Values[0])
								if s.Type != nil {
									iotaHead = show(s.Type) + " " + iotaHead
								}
							} else if len(s.Values) > 0 {
								iotaHead = ""
							}
							for i, n := range s.Names {
								sig := ""
								if s.Type != nil {
									sig = show(s.Type) + " "
								}
								if i < len(s.Values) {
									sig += "= " + show(s.Values[i])
								}
								if kind == "const" && iotaHead != "" {
									sig = fmt.Sprintf("%s @iota[%d]", iotaHead, si)
								}
								out[n.Name] = sigEntry{Kind: kind, Sig: sig}
							}
						}
					}
				}
			}
		}
	}
	return out, nil
}

// stripNames returns the function type with parameter and result names removed.
func stripNames(ft *ast.FuncType) *ast.FuncType {
	cp := func(fl *ast.FieldList) *ast.FieldList {
		if fl == nil {
			return nil
		}
		out := &ast.FieldList{}
		for _, f := range fl.List {
			n := len(f.Names)
			if n == 0 {
				n = 1
			}
			for i := 0; i < n; i++ {
				out.List = append(out.List, &ast.Field{Type: f.Type})
			}
		}
		return out
	}
	return &ast.FuncType{Params: cp(ft.Params), Results: cp(ft.Results)}
}

// structFields: (name, type) of every field of a struct type printed on one line; nil if not a struct.
func structFields(sig string) [][2]string {
	expr, err := parser.ParseExpr(sig)
	if err != nil {
		return nil
	}
	st, ok := expr.(*ast.StructType)
	if !ok || st.Fields == nil {
		return nil
	}
	fset := token.NewFileSet()
	var out [][2]string
	for _, f := range st.Fields.List {
		var b bytes.Buffer
		_ = printer.Fprint(&b, fset, f.Type)
		if len(f.Names) == 0 {
			out = append(out, [2]string{"", b.String()})
		}
		for _, n := range f.Names {
			out = append(out, [2]string{n.Name, b.String()})
		}
	}
	return out
}

func substTypes(sig string, ren map[string]string) string {
	for o, n := range ren {
		sig = regexp.MustCompile(`\b`+regexp.QuoteMeta(o)+`\b`).ReplaceAllString(sig, n)
	}
	return sig
}

// typeRenames: types of the pinned tree that exist in the current tree under a new name - same
// definition, or (structs) the same field types in the same order with possibly renamed fields.
func typeRenames(base, cur map[string]sigEntry) map[string]string {
	ren := map[string]string{}
	taken := map[string]bool{}
	isNew := func(n string) bool { _, ok := base[n]; return !ok }
	var names []string
	for n, e := range base {
		if e.Kind == "type" {
			names = append(names, n)
		}
	}
	sort.Strings(names)
	for changed := true; changed; {
		changed = false
		for _, n := range names {
			if _, present := cur[n]; present {
				continue
			}
			if _, done := ren[n]; done {
				continue
			}
			want := substTypes(base[n].Sig, ren)
			wf := structFields(want)
			var c []string
			for m, e := range cur {
				if e.Kind != "type" || !isNew(m) || taken[m] {
					continue
				}
				if e.Sig == want {
					c = append(c, m)
					continue
				}
				if cf := structFields(e.Sig); wf != nil && len(cf) == len(wf) && len(wf) > 0 {
					same := true
					for i := range wf {
						if wf[i][1] != cf[i][1] {
							same = false
						}
					}
					if same {
						c = append(c, m)
					}
				}
			}
			if len(c) == 1 {
				ren[n], taken[c[0]], changed = c[0], true, true
			}
		}
	}
	return ren
}


var (
	sigBaseline map[string]map[string]sigEntry
	sigCurrent  = map[string]map[string]sigEntry{}
)

func loadBaseline() {
	if sigBaseline != nil {
		return
	}
	sigBaseline = map[string]map[string]sigEntry{}
	cands := []string{os.Getenv("VERIF_BASELINE")}
	if exe, err := os.Executable(); err == nil {
		cands = append(cands, filepath.Join(filepath.Dir(exe), "..", "shims", "baseline.json"))
	}
	cands = append(cands, "shims/baseline.json", "/verif/harness/shims/baseline.json")
	for _, c := range cands {
		if c == "" {
			continue
		}
		if b, err := os.ReadFile(c); err == nil && json.Unmarshal(b, &sigBaseline) == nil {
			return
		}
	}
}

// resolveName: the current name of the declaration the pinned tree calls `name` in package `dir`
// (`Type.method` for methods: the result is then the bare method name).
func resolveName(dir, name string) string {
	loadBaseline()
	cur, ok := sigCurrent[dir]
	if !ok {
		cur, _ = pkgDecls(filepath.Join(repo, dir))
		sigCurrent[dir] = cur
	}
	bare := name[strings.LastIndex(name, ".")+1:]
	if cur == nil {
		return bare
	}
	base := sigBaseline[dir]
	b, ok := base[name]
	if !ok {
		return bare
	}
	typeRen := typeRenames(base, cur)
	key := name
	if b.Kind == "method" {
		recvT := strings.TrimSuffix(name, "."+bare)
		if r, ok := typeRen[recvT]; ok {
			key = r + "." + bare
		}
	}
	if _, present := cur[key]; present {
		return bare
	}
	if b.Kind == "type" {
		if r, ok := typeRen[name]; ok {
			return r
		}
		return bare
	}
	var c []string
	for n, e := range cur {
		if _, old := base[n]; old {
			continue
		}
		if e.Kind == b.Kind && e.Sig == substTypes(b.Sig, typeRen) && e.Recv == substTypes(b.Recv, typeRen) {
			c = append(c, n[strings.LastIndex(n, ".")+1:])
		}
	}
	if len(c) == 1 {
		return c[0]
	}
	return bare
}
