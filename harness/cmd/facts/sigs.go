package main

// Rename tolerance for the name-based facts (G1 constants, G2 wire tags, the detector arguments): when a
// declaration the extractor looks up by name no longer exists under that name, harness/shims/baseline.json
// (the signatures of the pinned tree, recorded by mkshims) is consulted; if exactly one declaration that is new in
// the current tree has the same kind and signature (for a constant: the same value; for a struct: the same
// fields and tags), the fact is read from it.  (pkgDecls is the same function as in cmd/mkshims.)

import (
	"bytes"
	"encoding/json"
	"go/ast"
	"go/parser"
	"go/printer"
	"go/token"
	"os"
	"path/filepath"
	"regexp"
	"strings"
)

type sigEntry struct {
	Kind string `json:"kind"` // func | method | type | const | var
	Recv string `json:"recv,omitempty"`
	Sig  string `json:"sig"`
}

// pkgDecls: name -> signature of every package-level declaration (methods as "Recv.name").
func pkgDecls(dir string) (map[string]sigEntry, error) {
	fset := token.NewFileSet()
	pkgs, err := parser.ParseDir(fset, dir, func(fi os.FileInfo) bool {
		return !strings.HasSuffix(fi.Name(), "_test.go") && !strings.HasPrefix(fi.Name(), "zz_verif_")
	}, 0)
	if err != nil {
		return nil, err
	}
	out := map[string]sigEntry{}
	show := func(n any) string {
		var b bytes.Buffer
		_ = printer.Fprint(&b, fset, n)
		// one line, still parseable: newlines inside braces become `;`
		t := b.String()
		t = regexp.MustCompile(`\{\s*\n`).ReplaceAllString(t, "{ ")
		t = regexp.MustCompile(`\n\s*\}`).ReplaceAllString(t, " }")
		t = strings.ReplaceAll(t, "\n", "; ")
		t = strings.Join(strings.Fields(t), " ")
		for strings.Contains(t, "; ;") {
			t = strings.ReplaceAll(t, "; ;", ";")
		}
		return t
	}
	for _, p := range pkgs {
		for _, f := range p.Files {
			for _, d := range f.Decls {
				switch d := d.(type) {
				case *ast.FuncDecl:
					ft := stripNames(d.Type)
					if d.Recv != nil && len(d.Recv.List) == 1 {
						recv := show(d.Recv.List[0].Type)
						out[strings.TrimPrefix(recv, "*")+"."+d.Name.Name] = sigEntry{Kind: "method", Recv: recv, Sig: show(ft)}
					} else {
						out[d.Name.Name] = sigEntry{Kind: "func", Sig: show(ft)}
					}
				case *ast.GenDecl:
					for _, s := range d.Specs {
						switch s := s.(type) {
						case *ast.TypeSpec:
							out[s.Name.Name] = sigEntry{Kind: "type", Sig: show(s.Type)}
						case *ast.ValueSpec:
							kind := "var"
							if d.Tok == token.CONST {
								kind = "const"
							}
							for i, n := range s.Names {
								sig := ""
								if s.Type != nil {
									sig = show(s.Type) + " "
								}
								if i < len(s.Values) {
									sig += "= " + show(s.Values[i])
								}
								out[n.Name] = sigEntry{Kind: kind, Sig: sig}
							}
						}
					}
				}
			}
		}
	}
	return out, nil
}

// stripNames returns the function type with parameter and result names removed.
func stripNames(ft *ast.FuncType) *ast.FuncType {
	cp := func(fl *ast.FieldList) *ast.FieldList {
		if fl == nil {
			return nil
		}
		out := &ast.FieldList{}
		for _, f := range fl.List {
			n := len(f.Names)
			if n == 0 {
				n = 1
			}
			for i := 0; i < n; i++ {
				out.List = append(out.List, &ast.Field{Type: f.Type})
			}
		}
		return out
	}
	return &ast.FuncType{Params: cp(ft.Params), Results: cp(ft.Results)}
}


var (
	sigBaseline map[string]map[string]sigEntry
	sigCurrent  = map[string]map[string]sigEntry{}
)

func loadBaseline() {
	if sigBaseline != nil {
		return
	}
	sigBaseline = map[string]map[string]sigEntry{}
	cands := []string{os.Getenv("VERIF_BASELINE")}
	if exe, err := os.Executable(); err == nil {
		cands = append(cands, filepath.Join(filepath.Dir(exe), "..", "shims", "baseline.json"))
	}
	cands = append(cands, "shims/baseline.json", "/verif/harness/shims/baseline.json")
	for _, c := range cands {
		if c == "" {
			continue
		}
		if b, err := os.ReadFile(c); err == nil && json.Unmarshal(b, &sigBaseline) == nil {
			return
		}
	}
}

// resolveName: the current name of the declaration the pinned tree calls `name` in package `dir`.
func resolveName(dir, name string) string {
	loadBaseline()
	cur, ok := sigCurrent[dir]
	if !ok {
		cur, _ = pkgDecls(filepath.Join(repo, dir))
		sigCurrent[dir] = cur
	}
	if _, present := cur[name]; present || cur == nil {
		return name
	}
	b, ok := sigBaseline[dir][name]
	if !ok {
		return name
	}
	var c []string
	for n, e := range cur {
		if _, old := sigBaseline[dir][n]; !old && e.Kind == b.Kind && e.Sig == b.Sig && e.Recv == b.Recv {
			c = append(c, n)
		}
	}
	if len(c) == 1 {
		return c[0]
	}
	return name
}
