package main

import (
	"verifharness/core"
	"verifharness/eng/route"
)

func main() { core.Main(route.New()) }
