package main

import (
	"verifharness/core"
	httpeng "verifharness/eng/http"
)

func main() { core.Main(httpeng.New()) }
