package main

import (
	"verifharness/core"
	"verifharness/eng/syncer"
)

func main() { core.Main(syncer.New()) }
