package main

import (
	"verifharness/core"
	"verifharness/eng/codec"
)

func main() { core.Main(codec.New()) }
