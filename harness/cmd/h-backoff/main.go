//go:debug randseednop=0
package main

// The go:debug directive above makes math/rand.Seed effective again (it is a no-op by default
// since Go 1.24): engine backoff seeds the global source right before every real
// backoff.Backoff() call so that the jitter of each op line is reproducible.

import (
	"verifharness/core"
	"verifharness/eng/backoff"
)

func main() { core.Main(backoff.New()) }
