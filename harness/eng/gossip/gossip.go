// Package gossip is the correspondence engine for pkg/gossip's clusterState: N real
// clusterState values exchanging real encoded packets through a pool (C02 C03 C11 C14 C17).
package gossip

import (
	"bufio"
	"fmt"
	"math/rand"
	"sort"
	"strconv"
	"strings"
	"sync"
	"time"

	. "verifharness/core"

	pg "github.com/andydunstall/piko/pkg/gossip"
)

// recWatcher records the notifications in the order they are delivered.  `probe`, when set, is
// run once from inside the next notification (see op `pexpire`).
type recWatcher struct {
	mu    sync.Mutex
	ev    []string
	probe func()
}

func (w *recWatcher) add(s string) {
	w.mu.Lock()
	w.ev = append(w.ev, s)
	p := w.probe
	w.probe = nil
	w.mu.Unlock()
	if p != nil {
		p()
	}
}

func (w *recWatcher) OnJoin(id string)            { w.add("join:" + Hx(id)) }
func (w *recWatcher) OnLeave(id string)           { w.add("leave:" + Hx(id)) }
func (w *recWatcher) OnReachable(id string)       { w.add("reach:" + Hx(id)) }
func (w *recWatcher) OnUnreachable(id string)     { w.add("unreach:" + Hx(id)) }
func (w *recWatcher) OnUpsertKey(id, k, v string) { w.add("up:" + Hx(id) + ":" + Hx(k) + "=" + Hx(v)) }
func (w *recWatcher) OnDeleteKey(id, k string)    { w.add("del:" + Hx(id) + ":" + Hx(k)) }
func (w *recWatcher) OnExpired(id string)         { w.add("exp:" + Hx(id)) }

type scriptFD struct{ suspected map[string]bool }

func (f *scriptFD) Report(string) {}
func (f *scriptFD) SuspicionLevel(id string) float64 {
	if f.suspected[id] {
		return 1000
	}
	return 0
}
func (f *scriptFD) Remove(string) {}

type foldNode struct {
	kv          map[string]string
	left, unrch bool
}

type gnode struct {
	id, addr string
	st       *pg.VState
	w        *recWatcher
	fd       *scriptFD
	// oracle state
	ref     map[string]string    // C17: live own keys
	hist    map[pg.Entry]bool    // C02: every entry this owner ever held
	fold    map[string]*foldNode // C14: fold of watcher events
	expired map[string]bool      // C11: nodes this observer has expired
	lastVer map[string]uint64    // C02: last reported version per remembered node
	wasLeft map[string]bool      // C11: left flag seen per remembered node
	dead    bool                 // left or crashed
}

type packet struct {
	digest       bool
	src, srcAddr string
	dst          string
	b            []byte
}

type engine struct {
	nodes     map[string]*gnode
	order     []string
	pool      []packet
	anyExp    bool // some observer expired some node in this case (C02's quantifier has no expiry)
	lastItems int  // items carried by the last delivermax reply (for the generator)
}

// New returns the engine.
func New() Engine { return &engine{} }

func (e *engine) Reset() {
	e.nodes = map[string]*gnode{}
	e.order = nil
	e.pool = nil
	e.anyExp = false
}

const huge = 1 << 30

func showEntry(en pg.Entry) string {
	s := Hx(en.Key) + "=" + Hx(en.Value) + "@" + strconv.FormatUint(en.Version, 10)
	if en.Deleted {
		s += "D"
	}
	if en.Internal {
		s += "I"
	}
	return s
}

func showEntries(es []pg.Entry) string {
	xs := make([]string, len(es))
	for i, en := range es {
		xs[i] = showEntry(en)
	}
	return strings.Join(xs, ",")
}

func showNode(n *pg.NodeState) string {
	return Hx(n.ID) + "@" + Hx(n.Addr) + ":v" + strconv.FormatUint(n.Version, 10) + ":L" + B01(n.Left) +
		":U" + B01(n.Unreachable) + ":X" + B01(!n.Expiry.IsZero()) + "{" + showEntries(n.Entries) + "}"
}

func (g *gnode) showState() string {
	var xs []string
	for _, m := range g.st.Nodes() {
		n, _ := g.st.Node(m.ID)
		xs = append(xs, showNode(n))
	}
	return "[" + SortedJoin(xs, ";") + "]"
}

func delPrefix(s string) string {
	p := strings.Split(s, ":")
	if len(p) == 3 && p[0] == "del" {
		return p[1]
	}
	return ""
}

// canonRuns sorts maximal runs of consecutive del: events of the same node.
func canonRuns(ev []string) []string {
	var out, run []string
	flush := func() {
		sort.Strings(run)
		out = append(out, run...)
		run = nil
	}
	for _, x := range ev {
		id := delPrefix(x)
		if id == "" {
			flush()
			out = append(out, x)
			continue
		}
		if len(run) > 0 && delPrefix(run[0]) != id {
			flush()
		}
		run = append(run, x)
	}
	flush()
	return out
}

func showDigest(d pg.VDigest) string {
	xs := make([]string, len(d))
	for i, x := range d {
		xs[i] = Hx(x.ID) + "@" + Hx(x.Addr) + ":v" + strconv.FormatUint(x.Version, 10) + ":L" + B01(x.Left)
	}
	return strings.Join(xs, ",")
}

func showDelta(d pg.VDelta) string {
	xs := make([]string, len(d))
	for i, x := range d {
		xs[i] = Hx(x.ID) + "@" + Hx(x.Addr) + "{" + showEntries(x.Entries) + "}"
	}
	return strings.Join(xs, "|")
}

func (e *engine) showPacket(p packet) string {
	if p.digest {
		h, d, err := pg.VDecodeDigest(p.b)
		if err != nil {
			return "digest(undecodable:" + err.Error() + ")"
		}
		return "digest(" + Hx(h.NodeID) + "@" + Hx(h.Addr) + ">" + Hx(p.dst) + ",r" + B01(h.Request) + ")[" + showDigest(d) + "]"
	}
	h, d, err := pg.VDecodeDelta(p.b)
	if err != nil {
		return "delta(undecodable:" + err.Error() + ")"
	}
	return "delta(" + Hx(h.NodeID) + "@" + Hx(h.Addr) + ">" + Hx(p.dst) + ")[" + showDelta(d) + "]"
}

func deltaItems(d pg.VDelta) int {
	n := 0
	for _, x := range d {
		n += 1 + len(x.Entries)
	}
	return n
}

// encodeDeltaCut runs the REAL encodeDelta with the smallest maxPacketSize that lets `cut`
// whole items through (binary search over max), so the real truncation loop decides.
func encodeDeltaCut(h pg.VDeltaHeader, d pg.VDelta, cut int, o *Out) []byte {
	full, err := pg.VEncodeDelta(h, d, huge)
	if err != nil {
		panic(err)
	}
	if cut >= deltaItems(d) {
		return full
	}
	hdr, err := pg.VEncodeDelta(h, nil, huge)
	if err != nil {
		panic(err)
	}
	lo, hi := len(hdr), len(full) // items(lo) = 0 <= cut < items(hi)
	items := func(max int) int {
		b, err := pg.VEncodeDelta(h, d, max)
		if err != nil {
			return -1
		}
		if len(b) > max {
			o.Fail("C13", "exceeds-max", fmt.Sprintf("len=%d max=%d", len(b), max))
		}
		_, dd, err := pg.VDecodeDelta(b)
		if err != nil {
			o.Fail("C13", "own-packet-undecodable", err.Error())
			return -1
		}
		return deltaItems(dd)
	}
	for lo < hi {
		mid := (lo + hi) / 2
		if items(mid) >= cut {
			hi = mid
		} else {
			lo = mid + 1
		}
	}
	b, _ := pg.VEncodeDelta(h, d, lo)
	o.Count("delta:truncated")
	return b
}

func encodeDigestCut(h pg.VDigestHeader, d pg.VDigest, cut int, o *Out) []byte {
	full, err := pg.VEncodeDigest(h, d, huge)
	if err != nil {
		panic(err)
	}
	if cut >= len(d) {
		return full
	}
	pre, _ := pg.VEncodeDigest(h, d[:cut], huge)
	b, err := pg.VEncodeDigest(h, d, len(pre))
	if err != nil {
		panic(err)
	}
	o.Count("digest:truncated")
	return b
}

func parseKV(pfx, s string) string {
	if !strings.HasPrefix(s, pfx) {
		panic("expected " + pfx + " got " + s)
	}
	return s[len(pfx):]
}

func parseInts(s string) []int {
	if s == "-" {
		return nil
	}
	var out []int
	for _, x := range strings.Split(s, ",") {
		out = append(out, Atoi(x))
	}
	return out
}

func (g *gnode) sortedDigest() pg.VDigest {
	d := g.st.Digest()
	sort.Slice(d, func(i, j int) bool { return d[i].ID < d[j].ID })
	return d
}

func selectIdx(p []int, d pg.VDigest) pg.VDigest {
	var out pg.VDigest
	for _, i := range p {
		if i >= 0 && i < len(d) {
			out = append(out, d[i])
		}
	}
	return out
}

func (e *engine) byAddr(addr string) *gnode {
	for _, id := range e.order {
		if e.nodes[id].addr == addr {
			return e.nodes[id]
		}
	}
	return nil
}

func (e *engine) result(op string, g *gnode, sortAll bool, sent []packet) string {
	ev := g.w.ev
	g.w.ev = nil
	var evs []string
	if sortAll {
		evs = append([]string(nil), ev...)
		sort.Strings(evs)
	} else {
		evs = canonRuns(ev)
	}
	var ps []string
	for _, p := range sent {
		ps = append(ps, e.showPacket(p))
	}
	return op + " " + Hx(g.id) + " st=" + g.showState() + " ev=[" + strings.Join(evs, ",") + "] out=[" + strings.Join(ps, " ") + "]"
}

func (e *engine) Step(ws []string, o *Out) string {
	switch ws[0] {
	case "node":
		id, addr := Unhx(ws[1]), Unhx(ws[2])
		if _, ok := e.nodes[id]; ok || e.byAddr(addr) != nil {
			return "err exists"
		}
		g := &gnode{id: id, addr: addr, w: &recWatcher{}, fd: &scriptFD{suspected: map[string]bool{}},
			ref: map[string]string{}, hist: map[pg.Entry]bool{}, fold: map[string]*foldNode{},
			expired: map[string]bool{}, lastVer: map[string]uint64{}, wasLeft: map[string]bool{}}
		g.st = pg.VNewClusterState(id, addr, g.fd, g.w)
		e.nodes[id] = g
		e.order = append(e.order, id)
		return e.finish(g, ws, o, false, nil, true)
	case "upsert", "delete", "leave", "compact":
		g, ok := e.nodes[Unhx(ws[1])]
		if !ok {
			return "err no-node"
		}
		before := g.st.LocalNode()
		switch ws[0] {
		case "upsert":
			g.st.UpsertLocal(Unhx(ws[2]), Unhx(ws[3]))
		case "delete":
			g.st.DeleteLocal(Unhx(ws[2]))
		case "leave":
			g.st.LeaveLocal()
			g.dead = true
		case "compact":
			thr := Atoi(ws[2])
			if len(before.Entries) == 0 && thr <= 0 {
				// the real code indexes an empty slice; the model returns its panic constructor
				func() {
					defer func() {
						if recover() != nil {
							o.Count("compact:panic")
						}
					}()
					g.st.CompactLocal(thr)
				}()
				return "err panic"
			}
			g.st.CompactLocal(thr)
		}
		e.oracleLocal(g, ws, before, o)
		return e.finish(g, ws, o, false, nil, true)
	case "crash":
		g, ok := e.nodes[Unhx(ws[1])]
		if !ok {
			return "err no-node"
		}
		g.dead = true
		return "ok"
	case "senddigest":
		g, ok := e.nodes[Unhx(ws[1])]
		if !ok {
			return "err no-node"
		}
		dst, req := Unhx(ws[2]), ws[3] == "1"
		cut, p := Atoi(parseKV("cut=", ws[4])), parseInts(parseKV("p=", ws[5]))
		sel := selectIdx(p, g.sortedDigest())
		b := encodeDigestCut(pg.VDigestHeader{NodeID: g.id, Addr: g.addr, Request: req}, sel, cut, o)
		pk := packet{digest: true, src: g.id, srcAddr: g.addr, dst: dst, b: b}
		e.pool = append(e.pool, pk)
		return e.finish(g, ws, o, false, []packet{pk}, false)
	case "deliver", "deliverw":
		// deliverw <i> cut= p= dcut= <k> <v>: like deliver, but the node writes k=v locally (and its
		// state is read, as the status API does) AFTER the replies were computed and BEFORE they are
		// encoded - the handlers encode outside the state mutex, so what Delta()/Digest() returned
		// must be a snapshot (seed C02d: a delta aliasing a cache that the write invalidates)
		i := Atoi(ws[1])
		if i < 0 || i >= len(e.pool) {
			return "err no-packet"
		}
		cut, p, dcut := Atoi(parseKV("cut=", ws[2])), parseInts(parseKV("p=", ws[3])), Atoi(parseKV("dcut=", ws[4]))
		pk := e.pool[i]
		g := e.byAddr(pk.dst)
		if g == nil {
			return "err no-dst"
		}
		own := showNode(g.st.LocalNode())
		var sent []packet
		if pk.digest {
			h, d, err := pg.VDecodeDigest(pk.b)
			if err != nil {
				o.Fail("C13", "own-packet-undecodable", err.Error())
				return "err undecodable"
			}
			known := map[string]bool{}
			for _, m := range g.st.Nodes() {
				known[m.ID] = true
			}
			g.st.ApplyDigest(d)
			e.oracleDigest(g, d, known, o)
			delta := g.st.Delta(d, false)
			var sel pg.VDigest
			if h.Request {
				sel = selectIdx(p, g.sortedDigest())
			}
			if ws[0] == "deliverw" {
				before := g.st.LocalNode()
				g.st.UpsertLocal(Unhx(ws[5]), Unhx(ws[6]))
				_ = g.st.LocalNode()
				_ = g.st.Nodes()
				_ = g.st.Delta(d, true)
				e.oracleLocal(g, []string{"upsert", ws[1], ws[5], ws[6]}, before, o)
				own = showNode(g.st.LocalNode())
				o.Count("deliverw")
			}
			b := encodeDeltaCut(pg.VDeltaHeader{NodeID: g.id, Addr: g.addr}, delta, cut, o)
			sent = append(sent, packet{src: g.id, srcAddr: g.addr, dst: h.Addr, b: b})
			if h.Request {
				b := encodeDigestCut(pg.VDigestHeader{NodeID: g.id, Addr: g.addr, Request: false}, sel, dcut, o)
				sent = append(sent, packet{digest: true, src: g.id, srcAddr: g.addr, dst: h.Addr, b: b})
			}
			e.pool = append(e.pool, sent...)
			o.Count("deliver:digest")
		} else {
			_, d, err := pg.VDecodeDelta(pk.b)
			if err != nil {
				o.Fail("C13", "own-packet-undecodable", err.Error())
				return "err undecodable"
			}
			if pk.src != g.id && len(d) > 0 {
				for _, de := range d {
					if de.ID != pk.src {
						o.Count("deliver:relay")
						break
					}
				}
			}
			g.st.ApplyDelta(d)
			o.Count("deliver:delta")
		}
		if showNode(g.st.LocalNode()) != own {
			o.Fail("C02", "own-state-changed-by-message", "node="+Hx(g.id))
		}
		return e.finish(g, ws, o, false, sent, ws[0] == "deliverw")
	case "delivermax":
		// like `deliver` of a digest packet, but the reply is encoded with a REAL byte limit;
		// `items` is the number of whole items the generator observed (the model's cut)
		i := Atoi(ws[1])
		if i < 0 || i >= len(e.pool) {
			return "err no-packet"
		}
		max, items := Atoi(parseKV("max=", ws[2])), Atoi(parseKV("items=", ws[3]))
		pk := e.pool[i]
		if !pk.digest {
			return "err not-digest"
		}
		g := e.byAddr(pk.dst)
		if g == nil {
			return "err no-dst"
		}
		h, d, err := pg.VDecodeDigest(pk.b)
		if err != nil {
			return "err undecodable"
		}
		g.st.ApplyDigest(d)
		delta := g.st.Delta(d, false)
		b, err := pg.VEncodeDelta(pg.VDeltaHeader{NodeID: g.id, Addr: g.addr}, delta, max)
		if err != nil {
			return "err header-too-big"
		}
		if len(b) > max {
			o.Fail("C13", "exceeds-max", fmt.Sprintf("len=%d max=%d", len(b), max))
		}
		_, dd, err := pg.VDecodeDelta(b)
		if err != nil {
			o.Fail("C13", "own-packet-undecodable", err.Error())
			return "err undecodable"
		}
		e.lastItems = deltaItems(dd)
		if items >= 0 && e.lastItems != items {
			return fmt.Sprintf("err items-mismatch real=%d line=%d", e.lastItems, items)
		}
		// C03 stall oracle: the reply names a node with outstanding entries but carries none of them
		for k, de := range delta {
			if len(de.Entries) == 0 {
				continue
			}
			carried := 0
			if k < len(dd) {
				carried = len(dd[k].Entries)
			}
			if carried == 0 {
				one, _ := pg.VEncodeDelta(pg.VDeltaHeader{NodeID: g.id, Addr: g.addr}, pg.VDelta{{ID: de.ID, Addr: de.Addr, Entries: de.Entries[:1]}}, huge)
				if len(one) > max {
					o.Fail("C03", "stalled-oversize-entry", fmt.Sprintf("node=%s first outstanding entry needs %d bytes > max=%d (starves every later update of that node)", Hx(de.ID), len(one), max))
				} else if k == 0 {
					o.Fail("C03", "stalled-although-first-entry-fits", fmt.Sprintf("node=%s needs=%d max=%d", Hx(de.ID), len(one), max))
				}
			}
			break
		}
		sent := []packet{{src: g.id, srcAddr: g.addr, dst: h.Addr, b: b}}
		if h.Request {
			// digest reply with no entries (the model's perm = [], dcut = 0)
			db := encodeDigestCut(pg.VDigestHeader{NodeID: g.id, Addr: g.addr, Request: false}, nil, 0, o)
			sent = append(sent, packet{digest: true, src: g.id, srcAddr: g.addr, dst: h.Addr, b: db})
		}
		e.pool = append(e.pool, sent...)
		o.Count("deliver:max")
		return e.finish(g, ws, o, false, sent, false)
	case "converged":
		// are all listed nodes' views of each other exactly the owners' states?
		ids := strings.Split(ws[1], ",")
		conv := true
		for _, r := range ids {
			for _, a := range ids {
				if r == a {
					continue
				}
				gr, ga := e.nodes[Unhx(r)], e.nodes[Unhx(a)]
				if gr == nil || ga == nil {
					conv = false
					continue
				}
				V, ok := gr.st.Node(ga.id)
				O := ga.st.LocalNode()
				if !ok || V.Version != O.Version || showEntries(V.Entries) != showEntries(O.Entries) {
					conv = false
				}
			}
		}
		if len(ws) > 2 && ws[2] == "expect=1" && !conv {
			o.Fail("C03", "not-converged-after-settle", "nodes="+ws[1])
		}
		o.Count("oracle:C03:converged")
		return "conv " + B01(conv)
	case "join", "leavestream":
		n, ok1 := e.nodes[Unhx(ws[1])]
		m, ok2 := e.nodes[Unhx(ws[2])]
		if !ok1 || !ok2 {
			return "err no-node"
		}
		if n == m {
			return "err self"
		}
		ownM, ownN := showNode(m.st.LocalNode()), showNode(n.st.LocalNode())
		m.st.ApplyDelta(n.st.LocalDelta())
		if ws[0] == "join" {
			dg := n.sortedDigest()
			m.st.ApplyDigest(dg)
			reply := m.st.Delta(dg, true)
			sort.SliceStable(reply, func(i, j int) bool { return reply[i].ID < reply[j].ID })
			if ws[3] == "1" {
				n.st.ApplyDelta(reply)
			}
		}
		if showNode(m.st.LocalNode()) != ownM || showNode(n.st.LocalNode()) != ownN {
			o.Fail("C02", "own-state-changed-by-message", "stream "+Hx(n.id)+">"+Hx(m.id))
		}
		// events of n (join reply) are folded by the oracle but not printed
		e.foldEvents(n, n.w.ev, o)
		n.w.ev = nil
		e.oracleViews(n, o)
		return e.finish(m, ws, o, false, nil, false)
	case "live":
		g, ok := e.nodes[Unhx(ws[1])]
		if !ok {
			return "err no-node"
		}
		g.fd.suspected = map[string]bool{}
		if ws[2] != "-" {
			for _, x := range strings.Split(ws[2], ",") {
				g.fd.suspected[Unhx(x)] = true
			}
		}
		own := showNode(g.st.LocalNode())
		g.st.UpdateLiveness(float64(pg.VSuspicionThreshold))
		if showNode(g.st.LocalNode()) != own {
			o.Fail("C11", "local-node-touched-by-liveness", Hx(g.id))
		}
		e.oracleLiveness(g, o)
		return e.finish(g, ws, o, true, nil, false)
	case "expire", "pexpire":
		g, ok := e.nodes[Unhx(ws[1])]
		if !ok {
			return "err no-node"
		}
		d := Atoi(ws[2])
		var probeDone chan struct{}
		if ws[0] == "pexpire" {
			// pexpire <n> <d> <src>: the expiry sweep with a digest of <src> arriving on another
			// goroutine WHILE the first notification of the sweep is being delivered.  State change
			// and notification are one atomic step (the watcher is called with the state mutex
			// held), so the digest can only take effect after the sweep: the notifications, in the
			// order delivered, still fold to the state (C14).
			src, ok := e.nodes[Unhx(ws[3])]
			if !ok || src == g {
				return "err no-node"
			}
			dg := src.st.Digest()
			probeDone = make(chan struct{})
			triggered := false
			g.w.probe = func() {
				triggered = true
				go func() { g.st.ApplyDigest(dg); close(probeDone) }()
				select {
				case <-probeDone:
				case <-time.After(30 * time.Millisecond):
				}
			}
			_ = triggered
			o.Count("pexpire")
		}
		// expected: exactly the remembered nodes with an expiry set, when d is beyond the expiry period
		var want []string
		for _, m := range g.st.Nodes() {
			if !m.Expiry.IsZero() && time.Duration(d)*time.Second > pg.VNodeExpiry {
				want = append(want, m.ID)
			}
		}
		g.st.RemoveExpiredAt(time.Now().Add(time.Duration(d) * time.Second))
		if ws[0] == "pexpire" {
			g.w.mu.Lock()
			pending := g.w.probe != nil
			g.w.probe = nil
			g.w.mu.Unlock()
			if pending {
				// the sweep notified nothing: the digest simply arrives afterwards
				g.st.ApplyDigest(e.nodes[Unhx(ws[3])].st.Digest())
			} else {
				select {
				case <-probeDone:
				case <-time.After(10 * time.Second):
					o.Fail("ANY", "hang", "ApplyDigest did not return after RemoveExpiredAt")
				}
			}
		}
		var got []string
		for _, x := range g.w.ev {
			if strings.HasPrefix(x, "exp:") {
				id := Unhx(x[4:])
				got = append(got, id)
				g.expired[id] = true
				delete(g.lastVer, id)
				delete(g.wasLeft, id)
				e.anyExp = true
			}
		}
		sort.Strings(want)
		sort.Strings(got)
		if strings.Join(want, ",") != strings.Join(got, ",") {
			o.Fail("C11", "expiry-set", fmt.Sprintf("want=%q got=%q", want, got))
		}
		for _, id := range got {
			if _, ok := g.st.Node(id); ok && ws[0] == "expire" {
				o.Fail("C11", "expired-but-remembered", Hx(id))
			}
		}
		return e.finish(g, ws, o, true, nil, false)
	}
	return "bad-op"
}

// finish folds the watcher events of g, runs the per-op oracles and prints the line.
func (e *engine) finish(g *gnode, ws []string, o *Out, sortAll bool, sent []packet, local bool) string {
	e.foldEvents(g, g.w.ev, o)
	e.oracleViews(g, o)
	if local {
		// a local write changes what every observer's view is compared against
		for _, id := range e.order {
			if id != g.id {
				e.oracleViews(e.nodes[id], o)
			}
		}
	}
	return e.result(ws[0], g, sortAll, sent)
}

// ---------------------------------------------------------------- oracles (on the real code)

// oracleLocal: C17 — own state is a last-write-wins map with fresh versions.
func (e *engine) oracleLocal(g *gnode, ws []string, before *pg.NodeState, o *Out) {
	after := g.st.LocalNode()
	for _, en := range after.Entries {
		g.hist[en] = true
	}
	o.Count("oracle:C17")
	reserved := func(k string) bool { return k == pg.VLeftKey || k == pg.VCompactKey }
	live := func(n *pg.NodeState) map[string]string {
		m := map[string]string{}
		for _, en := range n.Entries {
			if !en.Deleted && !en.Internal {
				m[en.Key] = en.Value
			}
		}
		return m
	}
	changed := false
	switch ws[0] {
	case "upsert":
		k, v := Unhx(ws[2]), Unhx(ws[3])
		if reserved(k) {
			return
		}
		old, had := g.ref[k]
		changed = !had || old != v
		g.ref[k] = v
	case "delete":
		k := Unhx(ws[2])
		if reserved(k) {
			return
		}
		_, had := g.ref[k]
		changed = had
		delete(g.ref, k)
	case "leave":
		changed = !before.Left
	case "compact":
		// live keys and values unchanged; relative order of live keys preserved; no tombstones if it ran
		ran := false
		for _, en := range after.Entries {
			if en.Key == pg.VCompactKey && en.Internal && en.Version == after.Version && after.Version > before.Version {
				ran = true
			}
		}
		if ran {
			for _, en := range after.Entries {
				if en.Deleted {
					o.Fail("C17", "tombstone-after-compaction", Hx(en.Key))
				}
			}
			var ob, oa []string
			for _, en := range before.Entries {
				if !en.Deleted && !(en.Internal && en.Key == pg.VCompactKey) {
					ob = append(ob, en.Key)
				}
			}
			for _, en := range after.Entries {
				if !(en.Internal && en.Key == pg.VCompactKey) {
					oa = append(oa, en.Key)
				}
			}
			if strings.Join(ob, "\x00") != strings.Join(oa, "\x00") {
				o.Fail("C17", "compaction-reordered-or-lost-keys", fmt.Sprintf("%q -> %q", ob, oa))
			}
			o.Count("compact:ran")
		} else if after.Version != before.Version {
			o.Fail("C17", "noop-compaction-consumed-version", "")
		}
	}
	lv := live(after)
	if len(lv) != len(g.ref) {
		o.Fail("C17", "live-map-differs", fmt.Sprintf("have=%d want=%d", len(lv), len(g.ref)))
	}
	for k, v := range g.ref {
		if got, ok := lv[k]; !ok || got != v {
			o.Fail("C17", "live-map-differs", "key="+Hx(k)+" want="+Hx(v)+" got="+Hx(got)+" present="+B01(ok))
		}
	}
	if ws[0] != "compact" {
		if changed {
			if after.Version != before.Version+1 {
				o.Fail("C17", "effective-change-without-fresh-version", fmt.Sprintf("%d -> %d", before.Version, after.Version))
			}
			if len(after.Entries) == 0 || after.Entries[len(after.Entries)-1].Version != after.Version {
				o.Fail("C17", "touched-entry-not-newest", "")
			}
		} else if showNode(after) != showNode(before) {
			o.Fail("C17", "noop-changed-state", showNode(before)+" -> "+showNode(after))
		}
	}
	seen := map[uint64]bool{}
	for _, en := range after.Entries {
		if seen[en.Version] || en.Version > after.Version {
			o.Fail("C02", "versions-not-distinct-or-above-node-version", showNode(after))
		}
		seen[en.Version] = true
	}
}

// foldEvents: C14 — replay watcher notifications into a folded view.
func (e *engine) foldEvents(g *gnode, ev []string, o *Out) {
	for _, x := range ev {
		p := strings.SplitN(x, ":", 3)
		id := Unhx(p[1])
		f := g.fold[id]
		if p[0] != "join" && f == nil {
			o.Fail("C14", "event-before-join", x)
			continue
		}
		switch p[0] {
		case "join":
			if f != nil {
				o.Fail("C14", "duplicate-join", x)
			}
			if g.expired[id] {
				// re-learned after this observer expired it
				src := e.nodes[id]
				if src != nil && src.dead {
					o.Fail("C11", "relearn-after-expiry", "observer="+Hx(g.id)+" node="+Hx(id)+" (forgotten dead node learned again from a third party holding a copy not flagged left)")
				}
				delete(g.expired, id)
			}
			g.fold[id] = &foldNode{kv: map[string]string{}}
		case "leave":
			f.left = true
		case "unreach":
			if f.left {
				o.Fail("C04", "liveness-event-for-left-node", x+" (the routing table would show a departed node as unreachable)")
			}
			f.unrch = true
		case "reach":
			if f.left {
				o.Fail("C04", "liveness-event-for-left-node", x+" (the syncer sets a departed node ACTIVE again; LookupEndpoint may return it)")
				o.Fail("C11", "left-node-treated-as-live", x)
			}
			f.unrch = false
		case "exp":
			delete(g.fold, id)
		case "up":
			kv := strings.SplitN(p[2], "=", 2)
			f.kv[Unhx(kv[0])] = Unhx(kv[1])
		case "del":
			delete(f.kv, Unhx(p[2]))
		}
	}
}

// oracleViews: C14 fold == visible state; C02 clauses for every view g holds; C11 flag clauses.
func (e *engine) oracleViews(g *gnode, o *Out) {
	o.Count("oracle:views")
	metas := g.st.Nodes()
	seenLocal := false
	vis := map[string]bool{}
	for _, m := range metas {
		if m.ID == g.id {
			seenLocal = true
			if m.Unreachable || !m.Expiry.IsZero() {
				o.Fail("C11", "local-node-unreachable-or-expiring", Hx(g.id))
			}
			continue
		}
		vis[m.ID] = true
		V, _ := g.st.Node(m.ID)
		// ---- C14
		f := g.fold[m.ID]
		if f == nil {
			o.Fail("C14", "visible-node-never-announced", Hx(m.ID))
		} else {
			if f.left != V.Left || f.unrch != V.Unreachable {
				o.Fail("C14", "flags-differ", fmt.Sprintf("node=%s fold L%v U%v state L%v U%v", Hx(m.ID), f.left, f.unrch, V.Left, V.Unreachable))
			}
			kv := map[string]string{}
			for _, en := range V.Entries {
				if !en.Internal && !en.Deleted {
					kv[en.Key] = en.Value
				}
			}
			if len(kv) != len(f.kv) {
				o.Fail("C14", "fold-differs", fmt.Sprintf("node=%s fold=%d visible=%d", Hx(m.ID), len(f.kv), len(kv)))
			}
			for k, v := range kv {
				if fv, ok := f.kv[k]; !ok || fv != v {
					o.Fail("C14", "fold-differs", "node="+Hx(m.ID)+" key="+Hx(k))
				}
			}
		}
		// ---- C11 flags
		if g.wasLeft[m.ID] && !V.Left {
			o.Fail("C11", "left-flag-reset", "observer="+Hx(g.id)+" node="+Hx(m.ID))
		}
		g.wasLeft[m.ID] = V.Left
		if (V.Left || V.Unreachable) && V.Expiry.IsZero() {
			o.Fail("C11", "left-or-unreachable-without-expiry", Hx(m.ID))
		}
		if !V.Left && !V.Unreachable && !V.Expiry.IsZero() {
			o.Fail("C11", "expiry-not-cleared", Hx(m.ID))
		}
		owner := e.nodes[m.ID]
		if owner == nil {
			continue
		}
		O := owner.st.LocalNode()
		if V.Left {
			hasMarker := false
			for en := range owner.hist {
				if en.Key == pg.VLeftKey && en.Internal {
					hasMarker = true
				}
			}
			if !hasMarker {
				o.Fail("C11", "left-without-owner-leaving", Hx(m.ID))
			}
		}
		for _, en := range O.Entries {
			if en.Key == pg.VLeftKey && en.Internal && V.Version >= en.Version && !V.Left {
				o.Fail("C11", "left-marker-reached-but-not-left", Hx(m.ID))
			}
		}
		// ---- C02 (quantifier: no expiry in the history)
		if lv, ok := g.lastVer[m.ID]; ok && V.Version < lv {
			o.Fail("C02", "version-moved-backwards", fmt.Sprintf("observer=%s node=%s %d -> %d", Hx(g.id), Hx(m.ID), lv, V.Version))
		}
		g.lastVer[m.ID] = V.Version
		if e.anyExp {
			o.Count("C02:skipped-after-expiry")
			continue
		}
		o.Count("oracle:C02")
		if V.Version > O.Version {
			o.Fail("C02", "view-version-above-owner", fmt.Sprintf("node=%s view=%d owner=%d", Hx(m.ID), V.Version, O.Version))
		}
		vk := map[string]pg.Entry{}
		seen := map[uint64]bool{}
		for _, en := range V.Entries {
			vk[en.Key] = en
			if !owner.hist[en] {
				o.Fail("C02", "fabricated-entry", "observer="+Hx(g.id)+" node="+Hx(m.ID)+" "+showEntry(en))
			}
			if en.Version > V.Version || seen[en.Version] {
				o.Fail("C02", "view-entry-version", showEntry(en))
			}
			seen[en.Version] = true
		}
		ok := map[string]pg.Entry{}
		var marker *pg.Entry
		for i, en := range O.Entries {
			ok[en.Key] = en
			if en.Key == pg.VCompactKey && en.Internal {
				marker = &O.Entries[i]
			}
			if en.Version <= V.Version {
				if got, have := vk[en.Key]; !have || got != en {
					o.Fail("C02", "incomplete-at-reported-version", fmt.Sprintf("observer=%s node=%s v=%d missing-or-stale %s (view has %v)", Hx(g.id), Hx(m.ID), V.Version, showEntry(en), have))
				}
			}
		}
		if marker != nil && marker.Version <= V.Version {
			for k, en := range vk {
				if _, still := ok[k]; !still {
					o.Fail("C02", "compacted-key-still-visible", "observer="+Hx(g.id)+" node="+Hx(m.ID)+" "+showEntry(en))
				}
			}
		}
		if V.Version == O.Version {
			o.Count("C02:caught-up")
			if showEntries(V.Entries) != showEntries(O.Entries) || V.Left != O.Left {
				o.Fail("C03", "caught-up-but-different", "observer="+Hx(g.id)+" node="+Hx(m.ID))
			}
		}
	}
	if !seenLocal {
		o.Fail("C11", "local-node-removed", Hx(g.id))
	}
	for id := range g.fold {
		if !vis[id] {
			o.Fail("C14", "announced-node-not-visible", Hx(id))
		}
	}
}

// oracleDigest: C11(c) — a digest entry flagged left never teaches an unknown node.
func (e *engine) oracleDigest(g *gnode, d pg.VDigest, known map[string]bool, o *Out) {
	for _, de := range d {
		if de.Left && !known[de.ID] {
			if _, ok := g.st.Node(de.ID); ok {
				// unless an earlier entry of the same digest (not flagged) added it
				dup := false
				for _, x := range d {
					if x.ID == de.ID && !x.Left {
						dup = true
					}
				}
				if !dup {
					o.Fail("C11", "learned-from-left-digest", Hx(de.ID))
				}
			}
		}
	}
}

// oracleLiveness: C11(e) — the unreachable flag follows the suspicion level.
func (e *engine) oracleLiveness(g *gnode, o *Out) {
	for _, m := range g.st.Nodes() {
		if m.ID == g.id || m.Left {
			continue
		}
		if m.Unreachable != g.fd.suspected[m.ID] {
			o.Fail("C11", "unreachable-flag-vs-suspicion", Hx(m.ID))
		}
	}
	for _, m := range g.st.LiveNodes() {
		if m.Left || m.Unreachable || m.ID == g.id {
			o.Fail("C11", "live-nodes-contains-dead", Hx(m.ID))
		}
	}
}

// ---------------------------------------------------------------- generator

var keyAlphabet = []string{"k", "a", "b", "endpoint:e", "proxy_addr", "é✓"}
var valAlphabet = []string{"", "v", "1", "2", "x y", "✓"}

func (e *engine) Gen(r *rand.Rand, n int, tier string, w *bufio.Writer) {
	for c := 0; c < n; c++ {
		sim := New().(*engine)
		sim.Reset()
		o := NewOut(bufio.NewWriter(discard{}))
		emit := func(format string, a ...any) {
			l := fmt.Sprintf(format, a...)
			fmt.Fprintln(w, l)
			func() {
				defer func() { _ = recover() }()
				sim.Step(strings.Fields(l), o)
			}()
		}
		fmt.Fprintf(w, "case gossip-%d\n", c)
		nn := 2 + r.Intn(4)
		var ids []string
		for i := 0; i < nn; i++ {
			id := fmt.Sprintf("n%d", i)
			ids = append(ids, id)
			emit("node %s %s", Hx(id), Hx("a"+id))
		}
		nkeys := 1 + r.Intn(len(keyAlphabet))
		keys := keyAlphabet[:nkeys]
		mode := r.Intn(10) // 0-5: no membership ops (C02 quantifier); 6-9: with leave/liveness/expiry
		nops := 20 + r.Intn(100)
		if tier == "thorough" {
			nops = 40 + r.Intn(300)
		}
		alive := func() []string {
			var xs []string
			for _, id := range ids {
				if !sim.nodes[id].dead {
					xs = append(xs, id)
				}
			}
			return xs
		}
		perm := func(k int) string {
			if k == 0 {
				return "-"
			}
			p := r.Perm(k)
			if r.Intn(4) == 0 {
				p = p[:1+r.Intn(k)]
			}
			xs := make([]string, len(p))
			for i, x := range p {
				xs[i] = strconv.Itoa(x)
			}
			return strings.Join(xs, ",")
		}
		cut := func() int {
			switch r.Intn(4) {
			case 0:
				return r.Intn(4)
			case 1:
				return r.Intn(12)
			default:
				return 1000
			}
		}
		for i := 0; i < nops; i++ {
			al := alive()
			if len(al) == 0 {
				break
			}
			id := Pick(r, al)
			g := sim.nodes[id]
			x := r.Intn(100)
			switch {
			case x < 22:
				v := Pick(r, valAlphabet)
				if r.Intn(25) == 0 {
					v = strings.Repeat("L", 300+r.Intn(1500))
				}
				emit("upsert %s %s %s", Hx(id), Hx(Pick(r, keys)), Hx(v))
			case x < 32:
				emit("delete %s %s", Hx(id), Hx(Pick(r, keys)))
			case x < 38:
				emit("compact %s %d", Hx(id), 1+r.Intn(3)*r.Intn(2))
			case x < 58:
				dst := Pick(r, ids)
				if dst == id {
					continue
				}
				k := len(g.st.Nodes())
				c := 1000
				if r.Intn(5) == 0 {
					c = r.Intn(k + 1)
				}
				emit("senddigest %s %s %d cut=%d p=%s", Hx(id), Hx("a"+dst), B2i(r.Intn(4) > 0), c, perm(k))
			case x < 90:
				if len(sim.pool) == 0 {
					continue
				}
				pi := r.Intn(len(sim.pool))
				if r.Intn(3) > 0 { // prefer recent packets
					pi = len(sim.pool) - 1 - r.Intn(1+len(sim.pool)/4)
				}
				dn := sim.byAddr(sim.pool[pi].dst)
				k := 1
				if dn != nil {
					if dn.dead {
						continue
					}
					k = len(dn.st.Nodes()) + 1
				}
				if sim.pool[pi].digest && dn != nil && r.Intn(4) == 0 {
					// the receiving node writes locally between computing and encoding its replies
					emit("deliverw %d cut=%d p=%s dcut=%d %s %s", pi, cut(), perm(k), 1000-r.Intn(2)*r.Intn(1000), Hx(Pick(r, keys)), Hx(fmt.Sprintf("w%d", r.Intn(4))))
				} else {
					emit("deliver %d cut=%d p=%s dcut=%d", pi, cut(), perm(k), 1000-r.Intn(2)*r.Intn(1000))
				}
			case x < 93:
				m := Pick(r, al)
				if m == id {
					continue
				}
				if r.Intn(4) == 0 {
					emit("leavestream %s %s", Hx(id), Hx(m))
				} else {
					emit("join %s %s %d", Hx(id), Hx(m), B2i(r.Intn(4) > 0))
				}
			default:
				if mode < 6 {
					continue
				}
				switch r.Intn(7) {
				case 6:
					// a node that is unreachable at an observer leaves, the observer learns of it
					// (directly or relayed), then the suspicion drops again: it must stay left
					var obs []string
					for _, m := range al {
						if m != id {
							obs = append(obs, m)
						}
					}
					if len(obs) == 0 {
						continue
					}
					ob := Pick(r, obs)
					emit("join %s %s 1", Hx(ob), Hx(id)) // make sure the observer knows the node
					emit("live %s %s", Hx(ob), Hx(id))
					emit("leave %s", Hx(id))
					if len(obs) > 1 && r.Intn(2) == 0 { // relayed through a third node
						via := Pick(r, obs)
						emit("leavestream %s %s", Hx(id), Hx(via))
						emit("join %s %s 1", Hx(ob), Hx(via))
					} else {
						emit("leavestream %s %s", Hx(id), Hx(ob))
					}
					emit("live %s -", Hx(ob))
					emit("live %s %s", Hx(ob), Hx(id))
					emit("live %s -", Hx(ob))
				case 0:
					emit("leave %s", Hx(id))
					// notify some peers as Gossip.Leave does
					for _, m := range al {
						if m != id && r.Intn(2) == 0 {
							emit("leavestream %s %s", Hx(id), Hx(m))
						}
					}
					if r.Intn(2) == 0 {
						// the compaction timer fires after the node has left: the left marker must
						// survive as an internal entry, and a late observer must still see a leave
						emit("delete %s %s", Hx(id), Hx(Pick(r, keys)))
						emit("compact %s 1", Hx(id))
						for _, m := range al {
							if m != id && r.Intn(2) == 0 {
								emit("join %s %s 1", Hx(m), Hx(id))
							}
						}
					}
				case 1:
					emit("crash %s", Hx(id))
				case 2, 3:
					var sus []string
					metas := g.st.Nodes() // map order: sort, the draws below must not depend on it
					sort.Slice(metas, func(i, j int) bool { return metas[i].ID < metas[j].ID })
					for _, m := range metas {
						if m.ID != id && (sim.nodes[m.ID] == nil || sim.nodes[m.ID].dead || r.Intn(5) == 0) && r.Intn(4) > 0 {
							sus = append(sus, Hx(m.ID))
						}
					}
					if r.Intn(3) == 0 { // the acting node's own id in the suspected set (must be ignored)
						sus = append(sus, Hx(id))
					}
					s := "-"
					if len(sus) > 0 {
						s = strings.Join(sus, ",")
					}
					emit("live %s %s", Hx(id), s)
				default:
					if len(al) > 1 && r.Intn(3) == 0 {
						// the sweep with a digest of another node arriving concurrently
						src := Pick(r, al)
						if src == id {
							src = al[(indexOf(al, id)+1)%len(al)]
						}
						emit("pexpire %s %d %s", Hx(id), Pick(r, []int{90, 90, 600, 30}), Hx(src))
					} else {
						emit("expire %s %d", Hx(id), Pick(r, []int{-3600, 30, 90, 90, 600}))
					}
				}
			}
			// a pull whose reply is cut by a REAL byte limit (exercises encodeDelta's own loop)
			if r.Intn(12) == 0 && len(sim.pool) > 0 {
				for pi := len(sim.pool) - 1; pi >= 0 && pi >= len(sim.pool)-6; pi-- {
					if sim.pool[pi].digest {
						max := Pick(r, []int{200, 400, 1400, 1400})
						l := fmt.Sprintf("delivermax %d max=%d items=", pi, max)
						func() {
							defer func() { _ = recover() }()
							sim.Step(strings.Fields(l+"-1"), o)
						}()
						fmt.Fprintf(w, "%s%d\n", l, sim.lastItems)
						break
					}
				}
			}
		}
		// settle: updates stop; every ordered pair of alive nodes pulls (digest, delta reply,
		// digest reply, delta) with everything fitting; then every view must equal its owner
		if mode < 6 {
			al := alive()
			for round := 0; round < 3; round++ {
				for _, a := range al {
					for _, b := range al {
						if a == b {
							continue
						}
						k := len(sim.nodes[a].st.Nodes())
						full := make([]string, k)
						for i := range full {
							full[i] = strconv.Itoa(i)
						}
						emit("senddigest %s %s 1 cut=1000 p=%s", Hx(a), Hx("a"+b), strings.Join(full, ","))
						di := len(sim.pool) - 1
						kb := len(sim.nodes[b].st.Nodes()) + 1
						fullb := make([]string, kb)
						for i := range fullb {
							fullb[i] = strconv.Itoa(i)
						}
						emit("deliver %d cut=1000 p=%s dcut=1000", di, strings.Join(fullb, ","))
						emit("deliver %d cut=1000 p=- dcut=0", di+1) // delta reply at a
						emit("deliver %d cut=1000 p=- dcut=0", di+2) // digest reply at a -> delta to b
						emit("deliver %d cut=1000 p=- dcut=0", len(sim.pool)-1)
					}
				}
			}
			var hx []string
			for _, a := range al {
				hx = append(hx, Hx(a))
			}
			if len(hx) >= 2 {
				emit("converged %s expect=1", strings.Join(hx, ","))
			}
		}
	}
}

func B2i(b bool) int {
	if b {
		return 1
	}
	return 0
}

type discard struct{}

func (discard) Write(p []byte) (int, error) { return len(p), nil }

func indexOf(xs []string, x string) int {
	for i, y := range xs {
		if y == x {
			return i
		}
	}
	return 0
}
