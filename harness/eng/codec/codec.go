// Package codec is the correspondence engine for pkg/gossip/protocol.go (C13): byte equality of
// the real encodeDigest/encodeDelta with the Lean encoders at every packet size, equality of
// the decoders on the packets produced, and a malformed/hostile stream fed to the real
// packetListener.handlePacket and streamListener.handleConn (implementation only; oracle on
// the Go side).
package codec

import (
	"bufio"
	"bytes"
	"context"
	"encoding/binary"
	"encoding/hex"
	"fmt"
	"io"
	"math/rand"
	"net"
	"os"
	"os/exec"
	"runtime"
	"runtime/debug"
	"runtime/metrics"
	"sort"
	"strconv"
	"strings"
	"sync"
	"syscall"
	"time"

	. "verifharness/core"

	g "github.com/andydunstall/piko/pkg/gossip"
	"github.com/andydunstall/piko/pkg/log"
	"github.com/andydunstall/piko/server/cluster"
	sgossip "github.com/andydunstall/piko/server/gossip"
)

const (
	localID   = "local"
	localAddr = "127.0.0.1:7946"
	watchdog  = 2 * time.Second  // a handler call must return within this (wall clock) ...
	grace     = 40 * time.Second // ... unless the process was starved of CPU: then it must return within
	//                                   the grace period having used < watchdog of CPU time itself
	maxAllocBytes = 256 << 20 // heap a handler call may allocate ...
	// A stream has no size limit of its own (the node bounds it by streamTimeout), and work linear in the
	// number of bytes received is neither a crash nor a hang: for stream inputs the bounds grow linearly
	// with the input (measured on ugorji v1.3.1: <= 10 us CPU and <= 250 B heap per input byte, worst
	// case an array of one-byte elements; constants below have <= 2x headroom).  Datagram inputs
	// (<= maxPacketSize) stay on the fixed bounds.
	cpuPerStreamByte   = 20 * time.Microsecond
	allocPerStreamByte = 512
	huge               = 1 << 40
)

func init() { debug.SetMemoryLimit(3 << 30) }

// ---------------------------------------------------------------- in-memory connections

type memAddr string

func (a memAddr) Network() string { return "mem" }
func (a memAddr) String() string  { return string(a) }

// memPacketConn records every datagram the listener writes.
type memPacketConn struct {
	mu   sync.Mutex
	sent [][]byte
}

func (c *memPacketConn) ReadFrom(p []byte) (int, net.Addr, error) { return 0, nil, net.ErrClosed }
func (c *memPacketConn) WriteTo(p []byte, addr net.Addr) (int, error) {
	c.mu.Lock()
	defer c.mu.Unlock()
	c.sent = append(c.sent, append([]byte(nil), p...))
	return len(p), nil
}
func (c *memPacketConn) Close() error                       { return nil }
func (c *memPacketConn) LocalAddr() net.Addr                { return memAddr("mem-packet") }
func (c *memPacketConn) SetDeadline(t time.Time) error      { return nil }
func (c *memPacketConn) SetReadDeadline(t time.Time) error  { return nil }
func (c *memPacketConn) SetWriteDeadline(t time.Time) error { return nil }
func (c *memPacketConn) take() [][]byte {
	c.mu.Lock()
	defer c.mu.Unlock()
	s := c.sent
	c.sent = nil
	return s
}

// memConn is a stream whose peer wrote `in` and then half-closed; the response is captured.
type memConn struct {
	r *bytes.Reader
	w bytes.Buffer
}

func (c *memConn) Read(p []byte) (int, error)         { return c.r.Read(p) }
func (c *memConn) Write(p []byte) (int, error)        { return c.w.Write(p) }
func (c *memConn) Close() error                       { return nil }
func (c *memConn) LocalAddr() net.Addr                { return memAddr("mem-local") }
func (c *memConn) RemoteAddr() net.Addr               { return memAddr("mem-remote") }
func (c *memConn) SetDeadline(t time.Time) error      { return nil }
func (c *memConn) SetReadDeadline(t time.Time) error  { return nil }
func (c *memConn) SetWriteDeadline(t time.Time) error { return nil }

// ---------------------------------------------------------------- engine

type codecEngine struct {
	st       *g.VState
	pc       *memPacketConn
	pl       *g.VPacketListener
	sl       *g.VStreamListener
	max      int
	poisoned bool
}

// New returns the engine.
func New() Engine { return &codecEngine{} }

func (e *codecEngine) Reset() {
	e.setup(1400, [][2]string{{"endpoint:a", "1"}, {"k", "v"}, {"gone", "x"}}, []string{"gone"})
}

func (e *codecEngine) setup(max int, kvs [][2]string, dels []string) {
	fd := g.VNewAccrualFD(time.Second, 50)
	// the production watcher: server/gossip syncer feeding a real cluster.State (routing table)
	cs := cluster.NewState(&cluster.Node{ID: localID, ProxyAddr: "127.0.0.1:8000", AdminAddr: "127.0.0.1:8002"}, log.NewNopLogger())
	sy := sgossip.VNewSyncer(cs, log.NewNopLogger())
	e.st = g.VNewClusterState(localID, localAddr, fd, sy)
	sy.Sync(e.st)
	for _, kv := range kvs {
		e.st.UpsertLocal(kv[0], kv[1])
	}
	for _, k := range dels {
		e.st.DeleteLocal(k)
	}
	e.pc = &memPacketConn{}
	e.max = max
	e.pl = g.VNewPacketListener(e.pc, e.st, fd, max)
	e.sl = g.VNewStreamListener(nil, e.st, time.Second)
	e.poisoned = false
}

func showNodeState(n *g.NodeState) string {
	var xs []string
	for _, en := range n.Entries {
		xs = append(xs, showEntry(en))
	}
	return fmt.Sprintf("%s,%s,v%d,left=%v,unreach=%v,expiry0=%v[%s]", Hx(n.ID), Hx(n.Addr), n.Version, n.Left,
		n.Unreachable, n.Expiry.IsZero(), strings.Join(xs, ";"))
}

func showEntry(en g.Entry) string {
	return Hx(en.Key) + "," + Hx(en.Value) + "," + strconv.FormatUint(en.Version, 10) + "," + B01(en.Internal) + "," + B01(en.Deleted)
}

func showDigestEntry(d g.VDigestEntry) string {
	return Hx(d.ID) + "," + Hx(d.Addr) + "," + strconv.FormatUint(d.Version, 10) + "," + B01(d.Left)
}

func showDeltaEntry(d g.VDeltaEntry) string {
	xs := []string{Hx(d.ID) + "," + Hx(d.Addr)}
	for _, en := range d.Entries {
		xs = append(xs, showEntry(en))
	}
	return strings.Join(xs, "/")
}

func errKind(err error) string {
	s := err.Error()
	switch {
	case strings.HasPrefix(s, "read:"):
		return "err:read"
	case strings.HasPrefix(s, "incorrect message type"):
		return "err:type"
	case strings.HasPrefix(s, "unsupported version"):
		return "err:version"
	case strings.HasPrefix(s, "decode:"):
		return "err:decode"
	}
	return "err:other"
}

func showDigestDec(h g.VDigestHeader, d g.VDigest, err error) string {
	if err != nil {
		return errKind(err)
	}
	var xs []string
	for _, x := range d {
		xs = append(xs, showDigestEntry(x))
	}
	return "H(" + Hx(h.NodeID) + "," + Hx(h.Addr) + "," + B01(h.Request) + ")[" + strings.Join(xs, ";") + "]"
}

func showDeltaDec(h g.VDeltaHeader, d g.VDelta, err error) string {
	if err != nil {
		return errKind(err)
	}
	var xs []string
	for _, x := range d {
		xs = append(xs, showDeltaEntry(x))
	}
	return "H(" + Hx(h.NodeID) + "," + Hx(h.Addr) + "," + strconv.Itoa(h.Entries) + ")[" + strings.Join(xs, ";") + "]"
}

func hexPkt(b []byte) string {
	if len(b) == 0 {
		return "-"
	}
	return hex.EncodeToString(b)
}

func unhexPkt(t string) []byte {
	if t == "-" {
		return nil
	}
	b, err := hex.DecodeString(t)
	if err != nil {
		panic("bad hex token")
	}
	return b
}

func parseU64(s string) uint64 {
	v, err := strconv.ParseUint(s, 10, 64)
	if err != nil {
		panic("bad uint64 " + s)
	}
	return v
}

func parseDigestTok(t string) g.VDigestEntry {
	p := strings.Split(t, ",")
	if len(p) != 4 {
		panic("bad digest entry token")
	}
	return g.VDigestEntry{ID: Unhx(p[0]), Addr: Unhx(p[1]), Version: parseU64(p[2]), Left: p[3] == "1"}
}

func parseNodeTok(t string) g.VDeltaEntry {
	parts := strings.Split(t, "/")
	hd := strings.Split(parts[0], ",")
	if len(hd) != 2 {
		panic("bad node token")
	}
	de := g.VDeltaEntry{ID: Unhx(hd[0]), Addr: Unhx(hd[1])}
	for _, et := range parts[1:] {
		p := strings.Split(et, ",")
		if len(p) != 5 {
			panic("bad entry token")
		}
		de.Entries = append(de.Entries, g.Entry{Key: Unhx(p[0]), Value: Unhx(p[1]), Version: parseU64(p[2]), Internal: p[3] == "1", Deleted: p[4] == "1"})
	}
	return de
}

// ---------------------------------------------------------------- independent msgpack item skipper (oracle side)

// mpSkip returns the length of the msgpack value at the start of b (depth-limited), or -1.
func mpSkip(b []byte, depth int) int {
	if len(b) == 0 || depth > 64 {
		return -1
	}
	t := b[0]
	seq := func(off, n int) int {
		for i := 0; i < n; i++ {
			if off > len(b) {
				return -1
			}
			k := mpSkip(b[off:], depth+1)
			if k < 0 {
				return -1
			}
			off += k
		}
		return off
	}
	fixed := func(n int) int {
		if len(b) < n {
			return -1
		}
		return n
	}
	lenAt := func(w int) (int, bool) {
		if len(b) < 1+w {
			return 0, false
		}
		var v uint64
		for _, x := range b[1 : 1+w] {
			v = v<<8 | uint64(x)
		}
		if v > 1<<31 {
			return 0, false
		}
		return int(v), true
	}
	switch {
	case t <= 0x7f, t >= 0xe0, t == 0xc0, t == 0xc2, t == 0xc3:
		return 1
	case t >= 0x80 && t <= 0x8f:
		return seq(1, 2*int(t&0x0f))
	case t >= 0x90 && t <= 0x9f:
		return seq(1, int(t&0x0f))
	case t >= 0xa0 && t <= 0xbf:
		return fixed(1 + int(t&0x1f))
	case t == 0xcc, t == 0xd0:
		return fixed(2)
	case t == 0xcd, t == 0xd1:
		return fixed(3)
	case t == 0xce, t == 0xd2, t == 0xca:
		return fixed(5)
	case t == 0xcf, t == 0xd3, t == 0xcb:
		return fixed(9)
	case t == 0xd9, t == 0xc4:
		n, ok := lenAt(1)
		if !ok {
			return -1
		}
		return fixed(2 + n)
	case t == 0xda, t == 0xc5:
		n, ok := lenAt(2)
		if !ok {
			return -1
		}
		return fixed(3 + n)
	case t == 0xdb, t == 0xc6:
		n, ok := lenAt(4)
		if !ok {
			return -1
		}
		return fixed(5 + n)
	case t == 0xdc:
		n, ok := lenAt(2)
		if !ok {
			return -1
		}
		return seq(3, n)
	case t == 0xdd:
		n, ok := lenAt(4)
		if !ok || n > len(b) {
			return -1
		}
		return seq(5, n)
	case t == 0xde:
		n, ok := lenAt(2)
		if !ok {
			return -1
		}
		return seq(3, 2*n)
	case t == 0xdf:
		n, ok := lenAt(4)
		if !ok || n > len(b) {
			return -1
		}
		return seq(5, 2*n)
	}
	return -1
}

// itemEnds returns the offsets at which whole top-level msgpack items end in b[from:].
func itemEnds(b []byte, from int) []int {
	var ends []int
	off := from
	for off < len(b) {
		k := mpSkip(b[off:], 0)
		if k <= 0 {
			break
		}
		off += k
		ends = append(ends, off)
	}
	return ends
}

// takeItems keeps the first n items of the flattening [node1, e11, e12, ..., node2, ...].
func takeItems(n int, d g.VDelta) g.VDelta {
	var out g.VDelta
	for _, de := range d {
		if n == 0 {
			break
		}
		n--
		k := len(de.Entries)
		if k > n {
			k = n
		}
		out = append(out, g.VDeltaEntry{ID: de.ID, Addr: de.Addr, Entries: de.Entries[:k]})
		n -= k
	}
	return out
}

// oracleEncode checks the C13 clauses for one encode call directly on the real code's output.
//
//	b, err      the real encoder's result for `max`
//	full        the real encoder's output with an unlimited packet size
//	hdrLen      length of the real encoder's output for an empty body (type, version, header)
//	wantDec(n)  canonical print of the first n items of the input
func oracleEncode(o *Out, what string, b []byte, err error, full []byte, hdrLen, max int, dec string, wantDec func(n int) string) {
	o.Count("oracle:C13:" + what)
	if hdrLen > max {
		if err == nil {
			o.Fail("C13", "header-too-large-not-rejected", fmt.Sprintf("%s max=%d header=%d", what, max, hdrLen))
		}
		o.Count(what + ":err")
		return
	}
	if err != nil {
		o.Fail("C13", "rejected-although-header-fits", fmt.Sprintf("%s max=%d header=%d: %v", what, max, hdrLen, err))
		return
	}
	if len(b) > max {
		o.Fail("C13", "packet-exceeds-max", fmt.Sprintf("%s max=%d len=%d", what, max, len(b)))
	}
	if len(b) < hdrLen || !bytes.HasPrefix(full, b) {
		o.Fail("C13", "not-a-byte-prefix", fmt.Sprintf("%s max=%d len=%d", what, max, len(b)))
		return
	}
	ends := itemEnds(full, hdrLen)
	n := -1
	if len(b) == hdrLen {
		n = 0
	}
	for i, e := range ends {
		if e == len(b) {
			n = i + 1
		}
	}
	if n < 0 {
		o.Fail("C13", "cut-inside-an-item", fmt.Sprintf("%s max=%d len=%d", what, max, len(b)))
		return
	}
	if n < len(ends) && ends[n] <= max {
		o.Fail("C13", "not-greedy", fmt.Sprintf("%s max=%d sent=%d bytes (%d items) but the next item ends at %d", what, max, len(b), n, ends[n]))
	}
	if want := wantDec(n); dec != want {
		o.Fail("C13", "decoded-not-the-prefix", fmt.Sprintf("%s max=%d items=%d decoded=%s want=%s", what, max, n, dec, want))
	}
	switch {
	case n == len(ends):
		o.Count(what + ":full")
	case n == 0:
		o.Count(what + ":header-only")
	default:
		o.Count(what + ":truncated")
	}
}

// ---------------------------------------------------------------- guarded handler calls

var allocSample = []metrics.Sample{{Name: "/gc/heap/allocs:bytes"}}

func heapAllocs() uint64 {
	metrics.Read(allocSample)
	if allocSample[0].Value.Kind() == metrics.KindUint64 {
		return allocSample[0].Value.Uint64()
	}
	return 0
}

type callRes struct {
	slow  bool
	cpu   time.Duration
	err   error
	pan   interface{}
	stack string
}

// threadCPU is the USER-mode CPU time consumed by the calling OS thread (RUSAGE_THREAD, ru_utime).
// Kernel time is deliberately not counted: on an overloaded or virtualised machine the page faults of
// one large allocation (ugorji allocates up to 64 MiB for a declared length) are charged seconds of
// system time, which says nothing about the handler; a decoder or state machine that loops burns user
// time, and allocation volume has its own bound.
func threadCPU() time.Duration {
	var ru syscall.Rusage
	if syscall.Getrusage(1 /* RUSAGE_THREAD */, &ru) != nil {
		return 0
	}
	return time.Duration(ru.Utime.Nano())
}

// onCPU is the user-mode CPU time of the OS thread `tid` of this process (/proc/self/task/<tid>/stat,
// field 14, clock ticks of 10 ms), readable from another thread.
func onCPU(tid int) time.Duration {
	b, err := os.ReadFile("/proc/self/task/" + strconv.Itoa(tid) + "/stat")
	if err != nil {
		return 0
	}
	st := string(b)
	if i := strings.LastIndex(st, ")"); i >= 0 {
		st = st[i+1:]
	}
	f := strings.Fields(st) // f[0] = state (field 3), utime = field 14 = f[11]
	if len(f) < 12 {
		return 0
	}
	ticks, _ := strconv.ParseInt(f[11], 10, 64)
	return time.Duration(ticks) * 10 * time.Millisecond
}

// blockedState: the goroutine header of a stack dump says it waits for something other than the CPU
func blockedState(where string) bool {
	hd := where
	if i := strings.Index(hd, "]"); i > 0 {
		hd = hd[:i]
	}
	for _, w := range []string{"semacquire", "chan ", "select", "IO wait", "sync.", "sleep", "unknown"} {
		if strings.Contains(hd, w) {
			return true
		}
	}
	return false
}

// guarded runs f with recover.  status: 0 = returned within `budget` (wall clock); 1 = returned late;
// 2 = never returned: after the grace period the call is given up as hung when its goroutine is blocked
// or its thread has been ON the CPU for longer than the budget; a goroutine that is merely runnable on
// an overloaded machine (thread on-CPU time still under the budget) is waited for (up to 30 min).
func guarded(budget time.Duration, f func() error) (callRes, int, string) {
	ch := make(chan callRes, 1)
	tidCh := make(chan [2]int64, 1)
	go func() {
		defer func() {
			if r := recover(); r != nil {
				ch <- callRes{pan: r, stack: string(debug.Stack())}
			}
		}()
		runtime.LockOSThread()
		defer runtime.UnlockOSThread()
		tid := syscall.Gettid()
		tidCh <- [2]int64{int64(tid), int64(onCPU(tid))}
		c0 := threadCPU()
		err := f()
		ch <- callRes{err: err, cpu: threadCPU() - c0}
	}()
	t := time.NewTimer(budget)
	defer t.Stop()
	select {
	case r := <-ch:
		return r, 0, ""
	case <-t.C:
	}
	where := stuckAt()
	var tid [2]int64
	select {
	case tid = <-tidCh:
	default:
	}
	deadline := time.Now().Add(30 * time.Minute)
	for {
		t2 := time.NewTimer(grace + 2*budget)
		select {
		case r := <-ch:
			t2.Stop()
			return r, 1, where
		case <-t2.C:
		}
		now := stuckAt()
		used := time.Duration(0)
		if tid[0] != 0 {
			used = onCPU(int(tid[0])) - time.Duration(tid[1])
		}
		if blockedState(now) || tid[0] == 0 || used >= budget || time.Now().After(deadline) {
			return callRes{}, 2, fmt.Sprintf("%s (thread user CPU %v)", now, used)
		}
	}
}

// stuckAt summarises the goroutine that is still inside a handler.
func stuckAt() string {
	buf := make([]byte, 4<<20)
	buf = buf[:runtime.Stack(buf, true)]
	for _, gr := range strings.Split(string(buf), "\n\n") {
		if strings.Contains(gr, "VHandlePacket") || strings.Contains(gr, "VHandleConn") {
			hd := gr
			if i := strings.Index(hd, "\n"); i > 0 {
				hd = hd[:i]
			}
			return hd + " " + shortStack(gr)
		}
	}
	return "unknown"
}

func shortStack(s string) string {
	var keep []string
	for _, l := range strings.Split(s, "\n") {
		l = strings.TrimSpace(l)
		if strings.HasPrefix(l, "github.com/") || strings.HasPrefix(l, "panic(") || strings.HasPrefix(l, "net.") || strings.HasPrefix(l, "sync.") || strings.HasPrefix(l, "runtime.") {
			if i := strings.LastIndex(l, "("); i > 0 {
				l = l[:i]
			}
			keep = append(keep, l)
			if len(keep) >= 6 {
				break
			}
		}
	}
	return strings.Join(keep, " <- ")
}

// hostile feeds one input to a real handler and evaluates the C13 robustness clauses.
type cost struct {
	cpu   time.Duration
	alloc uint64
	ok    bool
}

func (e *codecEngine) hostile(o *Out, kind string, in []byte, call func(en *codecEngine) error) (c cost) {
	if e.poisoned {
		o.Count(kind + ":skipped-after-hang")
		return
	}
	budget, allocBudget := watchdog, uint64(maxAllocBytes)
	if kind != "pkt" {
		budget += time.Duration(len(in)) * cpuPerStreamByte
		allocBudget += uint64(len(in)) * allocPerStreamByte
	}
	before := showNodeState(e.st.LocalNode())
	e.pc.take()
	a0 := heapAllocs()
	t0 := time.Now()
	res, status, where := guarded(budget, func() error { return call(e) })
	finished := status != 2
	if finished && (status == 1 || res.cpu >= budget) {
		// Over the wall-clock budget, or the handler's thread was charged more CPU than the budget.  On an
		// overloaded (or virtualised: steal time) machine both happen to cheap calls, so the same input is
		// re-measured on scratch nodes: it is a CPU-bound hang only if every measurement is over budget.
		best := res.cpu
		for i := 0; i < 2 && best >= budget; i++ {
			scratch := &codecEngine{}
			scratch.setup(e.max, nil, nil)
			r2, st2, _ := guarded(budget, func() error { return call(scratch) })
			if st2 == 2 {
				break
			}
			if r2.cpu < best {
				best = r2.cpu
			}
		}
		if best >= budget {
			finished = false
			where = fmt.Sprintf("returned late after using %v of CPU itself (re-measured); at the watchdog it was at %s", best, where)
		} else {
			res.slow = true
		}
	}
	if ms := time.Since(t0).Milliseconds(); ms >= 100 {
		o.Count(kind + ":took>=100ms")
		if os.Getenv("VERIF_CODEC_DEBUG") != "" {
			fmt.Fprintf(os.Stderr, "slow %dms %s %s\n", ms, kind, hexPkt(in))
		}
	}
	a1 := heapAllocs()
	tag := func() string {
		h := hexPkt(in)
		if len(h) > 600 {
			h = h[:600] + "...(" + strconv.Itoa(len(in)) + " bytes)"
		}
		return kind + " input=" + h
	}
	if !finished {
		e.poisoned = true
		o.Fail("C13", "hang", tag()+fmt.Sprintf(" handler did not return within %v; stuck at %s", budget, where))
		return
	}
	c = cost{cpu: res.cpu, alloc: a1 - a0, ok: true}
	if res.slow {
		o.Count(kind + ":slow-under-load")
	}
	if res.pan != nil {
		o.Count(kind + ":panic")
		o.Fail("C13", "panic", tag()+fmt.Sprintf(" panic: %.200v at %s", res.pan, shortStack(res.stack)))
	} else if res.err != nil {
		o.Count(kind + ":rejected")
		msg := res.err.Error()
		if i := strings.Index(msg, ":"); i > 0 {
			msg = msg[:i]
		}
		if len(msg) > 40 {
			msg = msg[:40]
		}
		o.Count(kind + ":rejected:" + strings.ReplaceAll(msg, " ", "-"))
	} else {
		o.Count(kind + ":applied")
	}
	if a1 > a0 && a1-a0 > allocBudget {
		o.Fail("C13", "memory", tag()+fmt.Sprintf(" allocated %d bytes handling a %d byte input (bound %d)", a1-a0, len(in), allocBudget))
		runtime.GC()
	}
	// the mutex must be free again (a panic while holding it would wedge the node)
	after := ""
	_, st3, _ := guarded(watchdog, func() error { after = showNodeState(e.st.LocalNode()); return nil })
	if st3 == 2 {
		e.poisoned = true
		o.Fail("C13", "hang", tag()+" cluster state mutex still held after the handler returned")
		return
	}
	if after != before {
		o.Fail("C13", "own-state-altered", tag()+" before="+before+" after="+after)
	}
	for _, p := range e.pc.take() {
		o.Count(kind + ":reply-packets")
		if len(p) > e.max {
			o.Fail("C13", "reply-exceeds-max", tag()+fmt.Sprintf(" reply of %d bytes > maxPacketSize %d", len(p), e.max))
		}
		var derr error
		if len(p) > 0 && p[0] == g.VMessageTypeDigest {
			_, _, derr = g.VDecodeDigest(p)
		} else {
			_, _, derr = g.VDecodeDelta(p)
		}
		if derr != nil {
			o.Fail("C13", "reply-does-not-decode", tag()+" reply="+hexPkt(p)+": "+derr.Error())
		}
	}
	return c
}

// scaleFamily builds the stream input of size parameter n for the linearity probe.
func scaleFamily(fam string, n int) []byte {
	m := &mp{}
	leaveHdr := func() {
		m.raw(g.VMessageTypeLeave, g.VSupportedVersion).mapHdr(2).str("node_id").str("x").str("addr").str("")
	}
	joinHdr := func() {
		m.raw(g.VMessageTypeJoin, g.VSupportedVersion).mapHdr(2).str("node_id").str("x").str("addr").str("")
	}
	switch fam {
	case "nils": // delta = array of n nils
		leaveHdr()
		m.arrHdr(n)
		m.b = append(m.b, bytes.Repeat([]byte{0xc0}, n)...)
	case "maps": // delta = array of n empty maps
		leaveHdr()
		m.arrHdr(n)
		m.b = append(m.b, bytes.Repeat([]byte{0x80}, n)...)
	case "nest": // known key given an n-deep map
		m.raw(g.VMessageTypeLeave, g.VSupportedVersion).mapHdr(2).str("node_id")
		m.b = append(m.b, bytes.Repeat([]byte{0x81, 0xa1, 'k'}, n)...)
	case "entries": // one node with n valid entries (applied)
		leaveHdr()
		m.arrHdr(1).mapHdr(3).str("id").str("n").str("addr").str("").str("entries").arrHdr(n)
		for i := 0; i < n; i++ {
			m.entry(hEntry{k: "k" + strconv.Itoa(i), v: "v", ver: uint64(i + 1)})
		}
	case "nodes": // n valid nodes with one entry each (applied, watcher notified)
		leaveHdr()
		m.arrHdr(n)
		for i := 0; i < n; i++ {
			m.mapHdr(3).str("id").str("n" + strconv.Itoa(i)).str("addr").str("10.0.0.1:1").str("entries").arrHdr(1)
			m.entry(hEntry{k: "proxy_addr", v: "10.0.0.1:2", ver: 1})
		}
	case "digest": // join with a digest of n unknown nodes
		joinHdr()
		m.arrHdr(0)
		m.arrHdr(n)
		for i := 0; i < n; i++ {
			m.digEntry(hDig{id: "d" + strconv.Itoa(i), addr: "10.0.0.1:1", ver: uint64(i)})
		}
	case "compact": // n entries then a compaction marker dropping them all
		leaveHdr()
		m.arrHdr(1).mapHdr(3).str("id").str("n").str("addr").str("").str("entries").arrHdr(n + 1)
		for i := 0; i < n; i++ {
			m.entry(hEntry{k: "k" + strconv.Itoa(i), v: "v", ver: uint64(i + 1)})
		}
		m.entry(hEntry{k: "_internal:compact", v: strconv.Itoa(n), ver: uint64(n + 1), internal: true})
	default:
		panic("unknown scale family " + fam)
	}
	return m.b
}

// scale: the cost of handling a stream must grow (at most) linearly: doubling the input may not
// more than triple CPU time or allocation (measured on a fresh node each; re-measured once before failing).
func (e *codecEngine) scale(o *Out, fam string, n int) {
	measure := func(k int) cost {
		e.Reset()
		in := scaleFamily(fam, k)
		return e.hostile(o, "conn", in, func(en *codecEngine) error { return g.VHandleConn(en.sl, &memConn{r: bytes.NewReader(in)}) })
	}
	const floor = 30 * time.Millisecond
	for attempt := 0; ; attempt++ {
		c1, c2 := measure(n), measure(2*n)
		if !c1.ok || !c2.ok {
			return
		}
		o.Count("scale:" + fam)
		if os.Getenv("VERIF_CODEC_DEBUG") != "" {
			fmt.Fprintf(os.Stderr, "scale %s n=%d cpu %v -> %v alloc %d -> %d\n", fam, n, c1.cpu, c2.cpu, c1.alloc, c2.alloc)
		}
		cpuBad := c2.cpu > 3*c1.cpu+floor
		allocBad := c2.alloc > 3*c1.alloc+(8<<20)
		if !cpuBad && !allocBad {
			return
		}
		if attempt >= 2 {
			o.Fail("C13", "superlinear", fmt.Sprintf("scale %s n=%d: cpu %v -> %v, alloc %d -> %d when the input doubles (%d -> %d bytes)",
				fam, n, c1.cpu, c2.cpu, c1.alloc, c2.alloc, len(scaleFamily(fam, n)), len(scaleFamily(fam, 2*n))))
			return
		}
	}
}

// inChild runs one hostile op in a fresh child process and re-reports its oracle lines.
func (e *codecEngine) inChild(o *Out, opText string) {
	exe, err := os.Executable()
	if err != nil {
		panic(err)
	}
	// the child applies the watchdog itself (and re-measures); the parent only kills a child that is
	// stuck beyond everything the child's own bounds allow
	ws := strings.Fields(opText)
	inLen := len(unhexPkt(ws[2])) + len(unhexPkt(ws[3]))*Atoi(ws[4]) + len(unhexPkt(ws[5]))
	childBudget := watchdog + time.Duration(inLen)*cpuPerStreamByte
	limit := 4*(grace+3*childBudget) + 30*time.Second
	ctx, cancel := context.WithTimeout(context.Background(), limit)
	defer cancel()
	cmd := exec.CommandContext(ctx, exe, "run")
	cmd.Env = append(os.Environ(), "VERIF_CODEC_CHILD=1")
	cmd.Stdin = strings.NewReader("case child\n" + opText + "\n")
	var stdout, stderr bytes.Buffer
	cmd.Stdout, cmd.Stderr = &stdout, &stderr
	runErr := cmd.Run()
	o.Count("rep:child-calls")
	for _, l := range strings.Split(stdout.String(), "\n") {
		if strings.HasPrefix(l, "ORACLE FAIL C13 ") {
			f := strings.SplitN(strings.TrimPrefix(l, "ORACLE FAIL C13 "), " ", 3)
			detail := opText
			if len(f) == 3 {
				if i := strings.Index(f[2], "handler did not return"); i >= 0 {
					detail += " " + f[2][i:]
				} else if i := strings.Index(f[2], " panic: "); i >= 0 {
					detail += f[2][i:]
				} else if i := strings.Index(f[2], " before="); i >= 0 {
					detail += f[2][i:]
				}
			}
			if len(detail) > 1500 {
				detail = detail[:1500]
			}
			o.Fail("C13", f[0], detail)
		}
	}
	if ctx.Err() != nil {
		o.Fail("C13", "hang", opText+" child process killed after "+limit.String())
		return
	}
	if runErr != nil {
		msg := ""
		for _, l := range strings.Split(stderr.String(), "\n") {
			if strings.HasPrefix(l, "fatal error:") || strings.HasPrefix(l, "runtime: goroutine stack exceeds") || strings.HasPrefix(l, "panic:") {
				msg += l + "; "
			}
		}
		o.Fail("C13", "process-crash", opText+" the process running the handler died: "+runErr.Error()+": "+msg)
	}
}

// ---------------------------------------------------------------- Step

func (e *codecEngine) Step(ws []string, o *Out) string {
	switch ws[0] {
	case "encdigest":
		h := g.VDigestHeader{NodeID: Unhx(ws[1]), Addr: Unhx(ws[2]), Request: ws[3] == "1"}
		max := Atoi(ws[4])
		var d g.VDigest
		for _, t := range ws[5:] {
			d = append(d, parseDigestTok(t))
		}
		b, err := g.VEncodeDigest(h, d, max)
		snap := append([]byte(nil), b...)
		// the bytes handed out must stay what they are while other packets are encoded (the
		// sender writes them to the socket later, other goroutines encode meanwhile)
		_, _ = g.VEncodeDigest(g.VDigestHeader{NodeID: "~other~", Addr: "~zz~:1", Request: !h.Request}, g.VDigest{{ID: "~x~", Addr: "~y~", Version: 1<<63 + 5}}, huge)
		_, _ = g.VEncodeDelta(g.VDeltaHeader{NodeID: "~other~", Addr: "~zz~:1"}, nil, huge)
		if err == nil && !bytes.Equal(snap, b) {
			o.Fail("C13", "emitted-packet-mutated", "a digest packet changed after another packet was encoded: "+hexPkt(snap)+" -> "+hexPkt(b))
		}
		full, _ := g.VEncodeDigest(h, d, huge)
		hdr, _ := g.VEncodeDigest(h, nil, huge)
		dec := ""
		if err == nil {
			dec = showDigestDec(g.VDecodeDigest(b))
		}
		oracleEncode(o, "digest", b, err, full, len(hdr), max, dec, func(n int) string {
			return showDigestDec(h, d[:n], nil)
		})
		if err != nil {
			return "err"
		}
		return "pkt=" + hexPkt(b) + " dec=" + dec
	case "encdelta":
		h := g.VDeltaHeader{NodeID: Unhx(ws[1]), Addr: Unhx(ws[2]), Entries: int(parseU64(ws[3]))}
		max := Atoi(ws[4])
		var d g.VDelta
		for _, t := range ws[5:] {
			d = append(d, parseNodeTok(t))
		}
		b, err := g.VEncodeDelta(h, d, max)
		snap := append([]byte(nil), b...)
		_, _ = g.VEncodeDelta(g.VDeltaHeader{NodeID: "~other~", Addr: "~zz~:1"}, nil, huge)
		_, _ = g.VEncodeDigest(g.VDigestHeader{NodeID: "~other~", Addr: "~zz~:1"}, g.VDigest{{ID: "~x~", Addr: "~y~", Version: 1<<63 + 5}}, huge)
		if err == nil && !bytes.Equal(snap, b) {
			o.Fail("C13", "emitted-packet-mutated", "a delta packet changed after another packet was encoded: "+hexPkt(snap)+" -> "+hexPkt(b))
		}
		full, _ := g.VEncodeDelta(h, d, huge)
		hdr, _ := g.VEncodeDelta(h, nil, huge)
		dec := ""
		if err == nil {
			dec = showDeltaDec(g.VDecodeDelta(b))
		}
		oracleEncode(o, "delta", b, err, full, len(hdr), max, dec, func(n int) string {
			return showDeltaDec(h, takeItems(n, d), nil)
		})
		if err != nil {
			return "err"
		}
		return "pkt=" + hexPkt(b) + " dec=" + dec
	case "decdigest":
		return "dec=" + showDigestDec(g.VDecodeDigest(unhexPkt(ws[1])))
	case "decdelta":
		return "dec=" + showDeltaDec(g.VDecodeDelta(unhexPkt(ws[1])))
	case "local":
		// local <maxPacketSize> <key>,<value> ...   (re)creates the node the handlers belong to
		var kvs [][2]string
		for _, t := range ws[2:] {
			p := strings.Split(t, ",")
			kvs = append(kvs, [2]string{Unhx(p[0]), Unhx(p[1])})
		}
		e.setup(Atoi(ws[1]), kvs, nil)
		return "skip"
	case "pkt":
		// packetListener.Serve reads a datagram into a maxPacketSize buffer: longer datagrams arrive truncated
		in := unhexPkt(ws[1])
		if len(in) > e.max {
			in = in[:e.max]
			o.Count("pkt:truncated-to-read-buffer")
		}
		e.hostile(o, "pkt", in, func(en *codecEngine) error { return g.VHandlePacket(en.pl, append([]byte(nil), in...)) })
		return "skip"
	case "conn":
		in := unhexPkt(ws[1])
		e.hostile(o, "conn", in, func(en *codecEngine) error {
			return g.VHandleConn(en.sl, &memConn{r: bytes.NewReader(in)})
		})
		return "skip"
	case "scale":
		// scale <family> <n>: linearity probe for the stream handler (implementation only)
		e.scale(o, ws[1], Atoi(ws[2]))
		e.Reset()
		return "skip"
	case "rep":
		// rep <pkt|conn|pipe> <prefix> <unit> <count> <suffix>: input = prefix + unit*count + suffix, fed to
		// the real handler in a CHILD process (same binary), so that an unrecoverable runtime fatal error
		// (stack overflow, out of memory) is reported as an oracle failure instead of killing the harness.
		if os.Getenv("VERIF_CODEC_CHILD") == "" {
			e.inChild(o, strings.Join(ws, " "))
			return "skip"
		}
		in := append(unhexPkt(ws[2]), bytes.Repeat(unhexPkt(ws[3]), Atoi(ws[4]))...)
		in = append(in, unhexPkt(ws[5])...)
		switch ws[1] {
		case "pkt":
			if len(in) > e.max {
				in = in[:e.max]
			}
			e.hostile(o, "pkt", in, func(en *codecEngine) error { return g.VHandlePacket(en.pl, append([]byte(nil), in...)) })
		default:
			e.hostile(o, "conn", in, func(en *codecEngine) error { return g.VHandleConn(en.sl, &memConn{r: bytes.NewReader(in)}) })
		}
		return "skip"
	case "pipe":
		// the same through net.Pipe: the peer writes the bytes and closes
		in := unhexPkt(ws[1])
		e.hostile(o, "pipe", in, func(en *codecEngine) error {
			c1, c2 := net.Pipe()
			go func() {
				_ = c2.SetDeadline(time.Now().Add(watchdog))
				go func() { _, _ = io.Copy(io.Discard, c2) }()
				_, _ = c2.Write(in)
				_ = c2.Close()
			}()
			return g.VHandleConn(en.sl, c1)
		})
		return "skip"
	}
	return "bad-op"
}

// ---------------------------------------------------------------- test-side msgpack writer (generator only)

type mp struct{ b []byte }

func (m *mp) raw(bs ...byte) *mp { m.b = append(m.b, bs...); return m }
func (m *mp) mapHdr(n int) *mp {
	if n < 16 {
		return m.raw(0x80 | byte(n))
	}
	return m.raw(0xde, byte(n>>8), byte(n))
}
func (m *mp) arrHdr(n int) *mp {
	if n < 16 {
		return m.raw(0x90 | byte(n))
	}
	if n < 65536 {
		return m.raw(0xdc, byte(n>>8), byte(n))
	}
	return m.raw(0xdd, byte(n>>24), byte(n>>16), byte(n>>8), byte(n))
}
func (m *mp) str(s string) *mp {
	n := len(s)
	switch {
	case n <= 31:
		m.raw(0xa0 | byte(n))
	case n <= 65535:
		m.raw(0xda, byte(n>>8), byte(n))
	default:
		m.raw(0xdb, byte(n>>24), byte(n>>16), byte(n>>8), byte(n))
	}
	m.b = append(m.b, s...)
	return m
}
func (m *mp) uint(v uint64) *mp {
	switch {
	case v <= 127:
		return m.raw(byte(v))
	case v <= 255:
		return m.raw(0xcc, byte(v))
	case v <= 65535:
		return m.raw(0xcd, byte(v>>8), byte(v))
	case v <= 1<<32-1:
		return m.raw(0xce, byte(v>>24), byte(v>>16), byte(v>>8), byte(v))
	}
	m.raw(0xcf)
	m.b = binary.BigEndian.AppendUint64(m.b, v)
	return m
}
func (m *mp) int(v int64) *mp {
	switch {
	case v >= 0 && v <= 127:
		return m.raw(byte(v))
	case v < 0 && v >= -32:
		return m.raw(byte(v))
	case v >= -128 && v < 0:
		return m.raw(0xd0, byte(v))
	case v >= -32768 && v <= 32767:
		return m.raw(0xd1, byte(v>>8), byte(v))
	case v >= -(1<<31) && v <= 1<<31-1:
		return m.raw(0xd2, byte(v>>24), byte(v>>16), byte(v>>8), byte(v))
	}
	m.raw(0xd3)
	m.b = binary.BigEndian.AppendUint64(m.b, uint64(v))
	return m
}
func (m *mp) bool(v bool) *mp {
	if v {
		return m.raw(0xc3)
	}
	return m.raw(0xc2)
}

type hEntry struct {
	k, v     string
	ver      uint64
	internal bool
	deleted  bool
}
type hNode struct {
	id, addr string
	count    int64 // declared entry count of the per-node header
	entries  []hEntry
}
type hDig struct {
	id, addr string
	ver      uint64
	left     bool
}

func (m *mp) entry(e hEntry) *mp {
	return m.mapHdr(5).str("key").str(e.k).str("value").str(e.v).str("version").uint(e.ver).
		str("internal").bool(e.internal).str("deleted").bool(e.deleted)
}
func (m *mp) deltaHdr(id, addr string, n int64) *mp {
	return m.mapHdr(3).str("node_id").str(id).str("addr").str(addr).str("entries").int(n)
}
func (m *mp) digestHdr(id, addr string, req bool) *mp {
	return m.mapHdr(3).str("node_id").str(id).str("addr").str(addr).str("request").bool(req)
}
func (m *mp) digEntry(d hDig) *mp {
	return m.mapHdr(4).str("id").str(d.id).str("addr").str(d.addr).str("version").uint(d.ver).str("left").bool(d.left)
}

func pktDelta(id, addr string, hdrEntries int64, nodes []hNode) []byte {
	m := &mp{}
	m.raw(g.VMessageTypeDelta, g.VSupportedVersion).deltaHdr(id, addr, hdrEntries)
	for _, n := range nodes {
		m.deltaHdr(n.id, n.addr, n.count)
		for _, e := range n.entries {
			m.entry(e)
		}
	}
	return m.b
}

func pktDigest(id, addr string, req bool, ds []hDig) []byte {
	m := &mp{}
	m.raw(g.VMessageTypeDigest, g.VSupportedVersion).digestHdr(id, addr, req)
	for _, d := range ds {
		m.digEntry(d)
	}
	return m.b
}

// stream messages: joinHeader/leaveHeader, then `delta` ([]deltaEntry) and (join) `digest`.
func (m *mp) streamDelta(nodes []hNode) *mp {
	m.arrHdr(len(nodes))
	for _, n := range nodes {
		m.mapHdr(3).str("id").str(n.id).str("addr").str(n.addr).str("entries").arrHdr(len(n.entries))
		for _, e := range n.entries {
			m.entry(e)
		}
	}
	return m
}

func streamJoin(id, addr string, nodes []hNode, ds []hDig) []byte {
	m := &mp{}
	m.raw(g.VMessageTypeJoin, g.VSupportedVersion).mapHdr(2).str("node_id").str(id).str("addr").str(addr)
	m.streamDelta(nodes)
	m.arrHdr(len(ds))
	for _, d := range ds {
		m.digEntry(d)
	}
	return m.b
}

func streamLeave(id, addr string, nodes []hNode) []byte {
	m := &mp{}
	m.raw(g.VMessageTypeLeave, g.VSupportedVersion).mapHdr(2).str("node_id").str(id).str("addr").str(addr)
	m.streamDelta(nodes)
	return m.b
}

// ---------------------------------------------------------------- generator

var runeAlphabet = []string{"a", "b", "k", "v", "0", "7", ":", "_", "-", " ", "é", "✓", "😀", "ß", "\x00", "\n", "Z", "/"}

func strOfBytes(r *rand.Rand, n int) string {
	// exactly n bytes of valid UTF-8
	var sb strings.Builder
	for sb.Len() < n {
		x := Pick(r, runeAlphabet)
		if sb.Len()+len(x) <= n {
			sb.WriteString(x)
		} else {
			sb.WriteString("x")
		}
	}
	return sb.String()
}

func genStr(r *rand.Rand, maxLen int) string {
	switch r.Intn(24) {
	case 0, 1:
		return ""
	case 2:
		return strOfBytes(r, 31)
	case 3:
		return strOfBytes(r, 32)
	case 4:
		return strOfBytes(r, 30+r.Intn(4))
	}
	return strOfBytes(r, r.Intn(maxLen+1))
}

var bigLens = []int{255, 256, 300, 1000, 4000, 65535, 65536, 70000}

var versionBoundaries = []uint64{0, 1, 127, 128, 255, 256, 32767, 32768, 65535, 65536, 1<<31 - 1, 1 << 31, 1<<32 - 1, 1 << 32,
	1<<63 - 1, 1 << 63, 1<<64 - 1}

func genVersion(r *rand.Rand) uint64 {
	switch r.Intn(4) {
	case 0:
		return Pick(r, versionBoundaries)
	case 1:
		return uint64(r.Intn(300))
	case 2:
		return r.Uint64() >> uint(r.Intn(64))
	}
	return uint64(1 + r.Intn(20))
}

var entriesBoundaries = []int64{0, 0, 0, 1, 127, 128, 255, 256, 32767, 32768, 65535, 65536, 1<<31 - 1, 1 << 31, 1<<32 - 1, 1 << 32, 1<<63 - 1}

var idAlphabet = []string{"n1", "n2", "n3", localID, "node-é", "", "n1", "a-rather-long-node-identifier-0001"}
var keyAlphabet = []string{"k", "k2", "endpoint:a", "endpoint:é✓", "_internal:left", "_internal:compact", "", "gone"}

func entryTok(e hEntry) string {
	return Hx(e.k) + "," + Hx(e.v) + "," + strconv.FormatUint(e.ver, 10) + "," + B01(e.internal) + "," + B01(e.deleted)
}
func nodeTok(n hNode) string {
	xs := []string{Hx(n.id) + "," + Hx(n.addr)}
	for _, e := range n.entries {
		xs = append(xs, entryTok(e))
	}
	return strings.Join(xs, "/")
}
func digTok(d hDig) string {
	return Hx(d.id) + "," + Hx(d.addr) + "," + strconv.FormatUint(d.ver, 10) + "," + B01(d.left)
}

func genEntry(r *rand.Rand, maxLen int) hEntry {
	e := hEntry{ver: genVersion(r), internal: r.Intn(5) == 0, deleted: r.Intn(4) == 0}
	if r.Intn(3) == 0 {
		e.k = Pick(r, keyAlphabet)
	} else {
		e.k = genStr(r, maxLen)
	}
	e.v = genStr(r, maxLen)
	return e
}

func genID(r *rand.Rand, maxLen int) string {
	if r.Intn(2) == 0 {
		return Pick(r, idAlphabet)
	}
	return genStr(r, maxLen)
}

func genAddr(r *rand.Rand, maxLen int) string {
	switch r.Intn(4) {
	case 0:
		return fmt.Sprintf("10.0.%d.%d:%d", r.Intn(256), r.Intn(256), r.Intn(65536))
	case 1:
		return genStr(r, maxLen)
	}
	return fmt.Sprintf("127.0.0.1:%d", 1+r.Intn(9000))
}

// sweepMaxes: every max from header-2 to full+2 when the packet is small, otherwise every
// max within 2 of an item boundary plus random ones.
func sweepMaxes(r *rand.Rand, full []byte, hdrLen int, exhaustiveLimit int) []int {
	lo := hdrLen - 2
	if lo < 0 {
		lo = 0
	}
	var ms []int
	if len(full) <= exhaustiveLimit {
		for m := lo; m <= len(full)+2; m++ {
			ms = append(ms, m)
		}
		return ms
	}
	seen := map[int]bool{}
	add := func(m int) {
		if m >= 0 && !seen[m] {
			seen[m] = true
			ms = append(ms, m)
		}
	}
	for _, e := range append([]int{hdrLen}, itemEnds(full, hdrLen)...) {
		for d := -2; d <= 2; d++ {
			add(e + d)
		}
	}
	for i := 0; i < 12; i++ {
		add(lo + r.Intn(len(full)+3-lo))
	}
	add(0)
	add(1 << 20)
	sort.Ints(ms)
	return ms
}

func (e *codecEngine) genStructured(r *rand.Rand, tier string, w *bufio.Writer) {
	maxLen := 12
	if r.Intn(3) == 0 {
		maxLen = 40
	}
	big := r.Intn(25) == 0
	bigLeft := 0
	if big {
		bigLeft = 1 + r.Intn(2)
	}
	bigStr := func(s string) string {
		if bigLeft > 0 && r.Intn(3) == 0 {
			bigLeft--
			return strOfBytes(r, Pick(r, bigLens))
		}
		return s
	}
	exhaustiveLimit := 700
	if tier == "thorough" {
		exhaustiveLimit = 1500
	}
	hid, haddr := bigStr(genID(r, maxLen)), genAddr(r, maxLen)
	if r.Intn(2) == 0 {
		// digest
		req := r.Intn(2) == 0
		var ds []hDig
		for i, n := 0, r.Intn(6); i < n; i++ {
			ds = append(ds, hDig{id: bigStr(genID(r, maxLen)), addr: bigStr(genAddr(r, maxLen)), ver: genVersion(r), left: r.Intn(4) == 0})
		}
		full := pktDigest(hid, haddr, req, ds)
		hdrLen := len(pktDigest(hid, haddr, req, nil))
		var toks []string
		for _, d := range ds {
			toks = append(toks, digTok(d))
		}
		for _, m := range sweepMaxes(r, full, hdrLen, exhaustiveLimit) {
			fmt.Fprintf(w, "encdigest %s %s %s %d", Hx(hid), Hx(haddr), B01(req), m)
			for _, t := range toks {
				fmt.Fprintf(w, " %s", t)
			}
			fmt.Fprintln(w)
		}
		// the decoder's own error returns, on the canonical packet
		fmt.Fprintf(w, "decdigest %s\n", hexPkt(full))
		fmt.Fprintf(w, "decdelta %s\n", hexPkt(full))
		wrongVersion := append([]byte(nil), full...)
		wrongVersion[1] = byte(1 + r.Intn(255))
		fmt.Fprintf(w, "decdigest %s\n", hexPkt(wrongVersion))
		fmt.Fprintf(w, "decdigest %s\n", hexPkt(full[:r.Intn(3)]))
		return
	}
	// delta
	hent := Pick(r, entriesBoundaries)
	var nodes []hNode
	for i, n := 0, r.Intn(6); i < n; i++ {
		nd := hNode{id: bigStr(genID(r, maxLen)), addr: bigStr(genAddr(r, maxLen))}
		ne := r.Intn(7)
		if r.Intn(60) == 0 {
			ne = 126 + r.Intn(5) // per-node header count crosses the fixint/int16 boundary
		}
		for j := 0; j < ne; j++ {
			en := genEntry(r, maxLen)
			if ne > 100 {
				en.k, en.v = strOfBytes(r, r.Intn(3)), ""
			}
			en.v = bigStr(en.v)
			nd.entries = append(nd.entries, en)
		}
		nd.count = int64(len(nd.entries))
		nodes = append(nodes, nd)
	}
	full := pktDelta(hid, haddr, hent, nodes)
	hdrLen := len(pktDelta(hid, haddr, hent, nil))
	var toks []string
	for _, n := range nodes {
		toks = append(toks, nodeTok(n))
	}
	for _, m := range sweepMaxes(r, full, hdrLen, exhaustiveLimit) {
		fmt.Fprintf(w, "encdelta %s %s %d %d", Hx(hid), Hx(haddr), hent, m)
		for _, t := range toks {
			fmt.Fprintf(w, " %s", t)
		}
		fmt.Fprintln(w)
	}
	fmt.Fprintf(w, "decdelta %s\n", hexPkt(full))
	fmt.Fprintf(w, "decdigest %s\n", hexPkt(full))
	wrongVersion := append([]byte(nil), full...)
	wrongVersion[1] = byte(1 + r.Intn(255))
	fmt.Fprintf(w, "decdelta %s\n", hexPkt(wrongVersion))
	fmt.Fprintf(w, "decdelta %s\n", hexPkt(full[:r.Intn(3)]))
}

// ---- hostile stream

func hostileStr(r *rand.Rand) string {
	switch r.Intn(12) {
	case 0:
		return ""
	case 1:
		return strOfBytes(r, 31+r.Intn(3))
	case 2:
		return strOfBytes(r, 200+r.Intn(1500))
	case 3:
		return "\u202e\ufeff" + strOfBytes(r, r.Intn(8))
	case 4, 5:
		// not valid UTF-8 (Go strings and msgpack str carry arbitrary bytes)
		return Pick(r, invalidUTF8) + strOfBytes(r, r.Intn(6))
	case 6:
		b := make([]byte, 1+r.Intn(12))
		r.Read(b)
		return string(b)
	}
	return strOfBytes(r, r.Intn(16))
}

var invalidUTF8 = []string{"\xff", "\xc0\x80", "\xed\xa0\x80", "\x80", "n1\xfe", "\xf8\x88\x80\x80\x80", "loca\xec", "\xe2\x9c", "_internal:\xff"}

func hostileAddr(r *rand.Rand) string {
	switch r.Intn(6) {
	case 0:
		return hostileStr(r)
	case 1:
		return Pick(r, invalidUTF8) + ":80"
	}
	return genAddr(r, 12)
}

func hostileID(r *rand.Rand) string {
	switch r.Intn(5) {
	case 0, 1:
		return localID
	case 2:
		return hostileStr(r)
	}
	return Pick(r, idAlphabet)
}

var routingKeys = []string{"proxy_addr", "admin_addr", "endpoint:", "endpoint:e", "endpoint:\xff", "endpoint:" + "e\x00", "status"}
var routingValues = []string{"", "1", "-1", "0", "99999999999999999999", "abc", "\xff", "1e9", "2147483648", "9223372036854775807", "-9223372036854775808", " 1"}

var compactValues = []string{"0", "5", "18446744073709551615", "18446744073709551616", "-1", "", "abc", "1e3", " 7", "007", "９"}

func hostileEntry(r *rand.Rand) hEntry {
	e := hEntry{k: Pick(r, keyAlphabet), v: hostileStr(r), ver: genVersion(r), internal: r.Intn(3) == 0, deleted: r.Intn(4) == 0}
	switch r.Intn(8) {
	case 0:
		e.k, e.internal, e.v = "_internal:compact", true, Pick(r, compactValues)
	case 1:
		e.k, e.internal = "_internal:left", true
	case 2:
		e.k = hostileStr(r)
	case 3:
		e.k, e.v, e.internal = Pick(r, routingKeys), Pick(r, routingValues), false
	}
	if r.Intn(3) == 0 {
		e.ver = 1 + uint64(r.Intn(1000))
	}
	return e
}

func hostileNodes(r *rand.Rand) []hNode {
	var nodes []hNode
	for i, n := 0, r.Intn(4); i < n; i++ {
		nd := hNode{id: hostileID(r), addr: hostileAddr(r)}
		for j, m := 0, r.Intn(6); j < m; j++ {
			nd.entries = append(nd.entries, hostileEntry(r))
		}
		nd.count = int64(len(nd.entries))
		switch r.Intn(10) {
		case 0:
			nd.count = -1 - int64(r.Intn(200))
		case 1:
			nd.count = Pick(r, entriesBoundaries)
		case 2:
			nd.count += int64(1 + r.Intn(3))
		case 3:
			if nd.count > 0 {
				nd.count--
			}
		}
		nodes = append(nodes, nd)
	}
	return nodes
}

func hostileDigest(r *rand.Rand) []hDig {
	var ds []hDig
	for i, n := 0, r.Intn(6); i < n; i++ {
		ds = append(ds, hDig{id: hostileID(r), addr: hostileAddr(r), ver: genVersion(r), left: r.Intn(4) == 0})
	}
	return ds
}

// one valid (well-formed msgpack) hostile message; stream=true gives a join/leave stream
func hostileValid(r *rand.Rand, stream bool) []byte {
	hid, haddr := hostileID(r), hostileAddr(r)
	if stream {
		if r.Intn(2) == 0 {
			return streamJoin(hid, haddr, hostileNodes(r), hostileDigest(r))
		}
		return streamLeave(hid, haddr, hostileNodes(r))
	}
	if r.Intn(2) == 0 {
		return pktDigest(hid, haddr, r.Intn(2) == 0, hostileDigest(r))
	}
	return pktDelta(hid, haddr, Pick(r, entriesBoundaries), hostileNodes(r))
}

var hugeLens = [][]byte{
	{0xda, 0xff, 0xff}, {0xdb, 0x7f, 0xff, 0xff, 0xff}, {0xdb, 0xff, 0xff, 0xff, 0xff}, {0xdb, 0x10, 0x00, 0x00, 0x00},
	{0xd9, 0xff}, {0xc5, 0xff, 0xff}, {0xc6, 0x7f, 0xff, 0xff, 0xff},
	{0xdd, 0x7f, 0xff, 0xff, 0xff}, {0xdd, 0xff, 0xff, 0xff, 0xff}, {0xdc, 0xff, 0xff},
	{0xdf, 0x7f, 0xff, 0xff, 0xff}, {0xdf, 0xff, 0xff, 0xff, 0xff}, {0xde, 0xff, 0xff},
	{0xc9, 0x7f, 0xff, 0xff, 0xff, 0x01}, {0xdd, 0x00, 0x10, 0x00, 0x00}, {0xdf, 0x00, 0x10, 0x00, 0x00},
}

var entriesValues = [][]byte{
	{0xff}, {0xe0}, {0xd0, 0x80}, {0xd1, 0x80, 0x00}, {0xd2, 0x80, 0x00, 0x00, 0x00}, {0xd3, 0x80, 0, 0, 0, 0, 0, 0, 0},
	{0xd3, 0xff, 0xff, 0xff, 0xff, 0xff, 0xff, 0xff, 0xff},
	{0xd2, 0x7f, 0xff, 0xff, 0xff}, {0xce, 0x80, 0x00, 0x00, 0x00}, {0xd3, 0x7f, 0xff, 0xff, 0xff, 0xff, 0xff, 0xff, 0xff},
	{0xcf, 0xff, 0xff, 0xff, 0xff, 0xff, 0xff, 0xff, 0xff}, {0xcb, 0x7f, 0xf0, 0, 0, 0, 0, 0, 0}, {0xca, 0x4f, 0, 0, 0},
	{0xc0}, {0xc3}, {0xa1, 0x35}, {0x90}, {0x80},
}

// positions of msgpack string headers / of the value following an "entries" key
func stringHeaderPositions(b []byte) []int {
	var ps []int
	for i := 2; i < len(b); i++ {
		if (b[i] >= 0xa0 && b[i] <= 0xbf) || b[i] == 0xda || b[i] == 0xdb {
			ps = append(ps, i)
		}
	}
	return ps
}

func entriesValuePositions(b []byte) []int {
	var ps []int
	key := append([]byte{0xa7}, "entries"...)
	for i := 0; i+len(key) < len(b); i++ {
		if bytes.Equal(b[i:i+len(key)], key) {
			ps = append(ps, i+len(key))
		}
	}
	return ps
}

func nested(r *rand.Rand) []byte {
	depth := []int{50, 1000, 10000, 100000}[r.Intn(4)]
	var unit []byte
	switch r.Intn(3) {
	case 0:
		unit = []byte{0x91}
	case 1:
		unit = []byte{0x81, 0xa1, 'k'}
	default:
		unit = []byte{0x81}
	}
	return bytes.Repeat(unit, depth)
}

func splice(b []byte, at, del int, ins []byte) []byte {
	if at > len(b) {
		at = len(b)
	}
	if at+del > len(b) {
		del = len(b) - at
	}
	out := append([]byte(nil), b[:at]...)
	out = append(out, ins...)
	return append(out, b[at+del:]...)
}

// mutate returns one or more mutants of a valid message.
func mutate(r *rand.Rand, b []byte) [][]byte {
	switch r.Intn(12) {
	case 0, 1: // bit flips
		m := append([]byte(nil), b...)
		for i, n := 0, 1+r.Intn(3); i < n && len(m) > 0; i++ {
			m[r.Intn(len(m))] ^= 1 << uint(r.Intn(8))
		}
		return [][]byte{m}
	case 2: // truncation at every byte
		var out [][]byte
		for i := 0; i < len(b) && i < 400; i++ {
			out = append(out, b[:i])
		}
		return out
	case 3: // one random truncation
		return [][]byte{b[:r.Intn(len(b)+1)]}
	case 4: // length-field inflation of a string
		if ps := stringHeaderPositions(b); len(ps) > 0 {
			p := Pick(r, ps)
			del := 1
			if b[p] == 0xda {
				del = 3
			} else if b[p] == 0xdb {
				del = 5
			}
			return [][]byte{splice(b, p, del, Pick(r, hugeLens))}
		}
	case 5: // entries field replaced
		if ps := entriesValuePositions(b); len(ps) > 0 {
			p := Pick(r, ps)
			del := mpSkip(b[p:], 0)
			if del < 0 || del > 9 {
				del = 1
			}
			return [][]byte{splice(b, p, del, Pick(r, entriesValues))}
		}
	case 6: // wrong type / version byte
		m := append([]byte(nil), b...)
		if len(m) >= 2 {
			if r.Intn(2) == 0 {
				m[0] = Pick(r, []byte{0, 1, 2, 3, 4, 5, 0x7f, 0x80, 0xff})
			} else {
				m[1] = Pick(r, []byte{1, 2, 0x7f, 0xff})
			}
		}
		return [][]byte{m}
	case 7: // deeply nested msgpack as a value or as the whole body
		if r.Intn(2) == 0 && len(b) >= 2 {
			return [][]byte{append(append([]byte(nil), b[:2]...), nested(r)...)}
		}
		if ps := stringHeaderPositions(b); len(ps) > 0 {
			p := Pick(r, ps)
			return [][]byte{splice(b, p, mpSkipOr1(b[p:]), nested(r))}
		}
	case 8: // huge declared length anywhere
		p := 2 + r.Intn(len(b))
		return [][]byte{splice(b, p, r.Intn(3), Pick(r, hugeLens))}
	case 9: // random byte insertion / deletion / overwrite
		m := append([]byte(nil), b...)
		for i, n := 0, 1+r.Intn(4); i < n; i++ {
			p := r.Intn(len(m) + 1)
			switch r.Intn(3) {
			case 0:
				m = splice(m, p, 0, []byte{byte(r.Intn(256))})
			case 1:
				m = splice(m, p, 1, nil)
			default:
				m = splice(m, p, 1, []byte{byte(r.Intn(256))})
			}
		}
		return [][]byte{m}
	case 10: // invalid UTF-8 / raw bytes inside a string, length kept
		if ps := stringHeaderPositions(b); len(ps) > 0 {
			p := Pick(r, ps)
			if b[p] >= 0xa1 && b[p] <= 0xbf && p+1 < len(b) {
				m := append([]byte(nil), b...)
				m[p+1] = Pick(r, []byte{0xff, 0xc0, 0x80, 0xfe, 0xed})
				return [][]byte{m}
			}
		}
	case 11: // duplicated tail / two messages glued
		return [][]byte{append(append([]byte(nil), b...), b[2:]...)}
	}
	return [][]byte{b}
}

func mpSkipOr1(b []byte) int {
	if k := mpSkip(b, 0); k > 0 {
		return k
	}
	return 1
}

func randomBytes(r *rand.Rand, stream bool) []byte {
	n := r.Intn(64)
	if r.Intn(10) == 0 {
		n = r.Intn(2000)
	}
	b := make([]byte, n)
	r.Read(b)
	if n >= 2 && r.Intn(4) != 0 {
		if stream {
			b[0] = byte(3 + r.Intn(2))
		} else {
			b[0] = byte(1 + r.Intn(2))
		}
		b[1] = 0
		if n >= 3 && r.Intn(2) == 0 {
			b[2] = 0x83
		}
	}
	return b
}

// positions for `rep`: [kind, prefix hex]; the repeated unit follows the prefix
var repPrefixes = [][2]string{
	{"conn", "0400"}, {"conn", "0300"}, {"conn", "040082a76e6f64655f6964"}, {"conn", "040082"},
	{"conn", "040082a76e6f64655f6964a178a461646472a0"},                                             // the delta value
	{"conn", "040082a76e6f64655f6964a178a461646472a091"},                                           // delta[0]
	{"conn", "040082a76e6f64655f6964a178a461646472a09183a26964"},                                   // delta[0].id
	{"conn", "040082a76e6f64655f6964a178a461646472a09183a26964a16ea461646472a0a7656e7472696573"},   // delta[0].entries
	{"conn", "040082a76e6f64655f6964a178a461646472a09183a26964a16ea461646472a0a7656e747269657391"}, // entries[0]
	{"conn", "030082a76e6f64655f6964a178a461646472a090"},                                           // the join digest value
	{"conn", "040082a76e6f64655f6964a178a461646472a0dd00030d40"},                                   // delta = array32(200000) of ...
	{"conn", "030082a76e6f64655f6964a178a461646472a090dd00030d40"},                                 // digest = array32(200000) of ...
	{"pkt", "0200"}, {"pkt", "0100"}, {"pkt", "020083a76e6f64655f6964"}, {"pkt", "020083a76e6f64655f6964a178a461646472a0a7656e7472696573"},
}
var repUnits = []string{"81a16b", "91", "81", "92", "82", "c0", "80", "90", "d40100", "c7010100", "c40100", "a0", "00", "ff"}

func (e *codecEngine) genHostile(r *rand.Rand, nops int, w *bufio.Writer) {
	max := Pick(r, []int{1400, 1400, 512, 200, 100, 64, 40, 65535})
	fmt.Fprintf(w, "local %d", max)
	for i, n := 0, r.Intn(5); i < n; i++ {
		fmt.Fprintf(w, " %s,%s", Hx(Pick(r, keyAlphabet[:4])+strconv.Itoa(i)), Hx(strOfBytes(r, r.Intn(60))))
	}
	fmt.Fprintln(w)
	emitted := 0
	emit := func(op string, b []byte) {
		fmt.Fprintf(w, "%s %s\n", op, hexPkt(b))
		emitted++
	}
	// occasionally: a repeated-unit input in a child process (deep nesting / long arrays at a random
	// position) and a linearity probe
	if r.Intn(16) == 0 {
		pre := Pick(r, repPrefixes)
		cnt := Pick(r, []int{1000, 30000, 100000})
		fmt.Fprintf(w, "rep %s %s %s %d -\n", pre[0], pre[1], Pick(r, repUnits), cnt)
	}
	if r.Intn(32) == 0 {
		fmt.Fprintf(w, "scale %s %d\n", Pick(r, []string{"nils", "maps", "nest", "entries", "nodes", "digest", "compact"}), 1000+r.Intn(2000))
	}
	for emitted < nops {
		stream := r.Intn(3) == 0
		op := "pkt"
		if stream {
			op = "conn"
			if r.Intn(8) == 0 {
				op = "pipe"
			}
		}
		switch x := r.Intn(10); {
		case x < 2:
			emit(op, randomBytes(r, stream))
		case x < 5:
			emit(op, hostileValid(r, stream))
		default:
			for _, m := range mutate(r, hostileValid(r, stream)) {
				emit(op, m)
			}
		}
	}
}

// Gen: each case = one digest or delta swept over every packet size (structured part, compared
// with the model) followed by a batch of malformed/hostile inputs for the real handlers.
func (e *codecEngine) Gen(r *rand.Rand, n int, tier string, w *bufio.Writer) {
	hostilePerCase := 150
	if tier == "thorough" {
		hostilePerCase = 600
	}
	for c := 0; c < n; c++ {
		fmt.Fprintf(w, "case codec-%d\n", c)
		e.genStructured(r, tier, w)
		e.genHostile(r, hostilePerCase, w)
	}
}
