package codec

import (
	"testing"
	"time"
)

func TestGuardedHang(t *testing.T) {
	// blocked forever
	t0 := time.Now()
	_, st, where := guarded(200*time.Millisecond, func() error { select {} })
	t.Log("blocked:", st, time.Since(t0), where)
	if st != 2 {
		t.Fatal("blocked goroutine not reported as hang")
	}
}

func TestGuardedSpin(t *testing.T) {
	t0 := time.Now()
	stop := time.Now().Add(100 * time.Second)
	_, st, where := guarded(200*time.Millisecond, func() error {
		for time.Now().Before(stop) {
		}
		return nil
	})
	t.Log("spin:", st, time.Since(t0), where)
	if st != 2 {
		t.Fatal("spinning goroutine not reported as hang")
	}
}
