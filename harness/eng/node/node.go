// Package node is the correspondence engine for losing a node (C18): N REAL piko server nodes
// in one process (server.NewServer/Start on loopback ports, gossip interval 50 ms), REAL client
// listeners connecting through a tiny round-robin TCP load balancer owned by the harness, HTTP
// traffic through every node.
//
// ops:
//
//	init <n>                     start n nodes, wait until every node sees n active nodes
//	listen <k> <ep> <i>          listener k on endpoint ep, first attached to node i (LB pinned)
//	req                          a request for every endpoint through every live node
//	shutdown <i> <inflight 0|1>  graceful Server.Shutdown of node i (optionally with a slow
//	                             request in flight through it), then wait for recovery
//	shutdown-inflight <i>        graceful Shutdown of node i while a 3 s request is in flight on
//	                             its proxy: the traffic must be withdrawn from it (endpoints no
//	                             longer advertised / listeners reconnected / requests served by
//	                             every survivor) within 2.2 s of the START of Shutdown
//	kill <i>                     abrupt loss, IN-PROCESS APPROXIMATION: node i's TCP listeners and
//	                             gossip sockets are closed without Leave and every upstream TCP
//	                             connection to it is cut; its goroutines keep running isolated
//	decide <ctx 0|1> <local none|close|shutdown> <inject none|remote-close|rst|sess-close>
//	                             one row of listener.AcceptWithContext's decision table, driven
//	                             by an injected session error on a real listener
//
// The thorough tier additionally runs `proc` cases: the real `piko` binary built into a
// temporary directory, three processes, one SIGKILLed.
package node

import (
	"bufio"
	"context"
	"errors"
	"fmt"
	"io"
	"math/rand"
	"net"
	"net/http"
	"net/url"
	"os"
	"os/exec"
	"path/filepath"
	"sort"
	"strconv"
	"strings"
	"sync"
	"syscall"
	"time"

	"go.uber.org/zap"

	. "verifharness/core"

	"github.com/andydunstall/piko/client"
	"github.com/andydunstall/piko/pkg/log"
	"github.com/andydunstall/piko/server"
	"github.com/andydunstall/piko/server/cluster"
	"github.com/andydunstall/piko/server/config"
	"github.com/andydunstall/piko/server/upstream"
)

const (
	gossipInterval = 50 * time.Millisecond
	gracePeriod    = 6 * time.Second
	slowInflight   = 3 * time.Second         // the in-flight request of `shutdown-inflight` (below the grace period)
	drainBand      = 2200 * time.Millisecond // the leaving node's upstream server must be shut down this soon after Shutdown starts (the request is still in flight)
	settleBound    = 20 * time.Second        // routing information settles / listeners reconnect (generous: the box may be loaded)
	pollEvery      = 10 * time.Millisecond
	maxNotified    = 4 // pkg/gossip Leave: `notified > 3`
)

// ---------------------------------------------------------------- load balancer

type lbConn struct {
	node int
	c, s net.Conn
}

func (p *lbConn) close() { _ = p.c.Close(); _ = p.s.Close() }

// lb is a round-robin TCP load balancer in front of the upstream ports.
type lb struct {
	ln      net.Listener
	mu      sync.Mutex
	targets []string
	alive   []bool
	next    int
	pin     int
	conns   []*lbConn
	closed  bool
}

func newLB(targets []string) *lb {
	ln := listenLoopback()
	l := &lb{ln: ln, targets: targets, alive: make([]bool, len(targets)), pin: -1}
	for i := range l.alive {
		l.alive[i] = true
	}
	go l.serve()
	return l
}

func (l *lb) order() []int {
	l.mu.Lock()
	defer l.mu.Unlock()
	var xs []int
	if l.pin >= 0 {
		xs = append(xs, l.pin)
		l.pin = -1
	}
	n := len(l.targets)
	for i := 0; i < n; i++ {
		j := (l.next + i) % n
		if l.alive[j] {
			xs = append(xs, j)
		}
	}
	l.next = (l.next + 1) % n
	return xs
}

func (l *lb) serve() {
	for {
		c, err := l.ln.Accept()
		if err != nil {
			return
		}
		go func() {
			for _, j := range l.order() {
				s, err := net.DialTimeout("tcp", l.targets[j], time.Second)
				if err != nil {
					continue
				}
				p := &lbConn{node: j, c: c, s: s}
				l.mu.Lock()
				dead := l.closed || !l.alive[j]
				if !dead {
					l.conns = append(l.conns, p)
				}
				l.mu.Unlock()
				if dead {
					p.close()
					return
				}
				go func() { _, _ = io.Copy(p.c, p.s); p.close() }()
				go func() { _, _ = io.Copy(p.s, p.c); p.close() }()
				return
			}
			_ = c.Close()
		}()
	}
}

// cut marks node j dead (as a health check would) and cuts every connection relayed to it.
func (l *lb) cut(j int) {
	l.mu.Lock()
	l.alive[j] = false
	cs := l.conns
	l.mu.Unlock()
	for _, p := range cs {
		if p.node == j {
			p.close()
		}
	}
}

func (l *lb) close() {
	l.mu.Lock()
	l.closed = true
	cs := l.conns
	l.mu.Unlock()
	_ = l.ln.Close()
	for _, p := range cs {
		p.close()
	}
}

// ---------------------------------------------------------------- engine

type nd struct {
	idx    int
	id     string
	srv    *server.Server
	alive  bool
	killed bool
}

type lst struct {
	k    int
	ep   string
	ln   client.Listener
	done chan error // http.Serve returned (Accept failed)
}

type nodeEngine struct {
	started bool
	nodes   []*nd
	lb      *lb
	ls      map[int]*lst
	hc      *http.Client
	// a `/hold` request reached a listener's handler
	holdStarted chan struct{}
	// decision-table rig
	rig    *rig
	cdrSeq int
	// proc tier
	procDir string
}

var resetMs int

// loopIP is this process's own loopback address (all of 127.0.0.0/8 is loopback on Linux).
// Every harness process uses node ids n0, n1, ... and ephemeral ports; on a shared address a
// port freed by one cluster is reused by another while nodes of the first still gossip to it
// (piko keeps gossiping with unreachable peers), and the two clusters contaminate each other.
// A per-process address keeps the clusters apart.
var loopIP = fmt.Sprintf("127.%d.%d.1", 1+(os.Getpid()>>8)%250, 1+os.Getpid()%250)

// listenLoopback opens a TCP listener on an ephemeral loopback port, retrying while the box is
// short of ephemeral ports (many harnesses run side by side).
func listenLoopback() net.Listener {
	var err error
	for i := 0; i < 200; i++ {
		var ln net.Listener
		if ln, err = net.Listen("tcp", loopIP+":0"); err == nil {
			return ln
		}
		time.Sleep(25 * time.Millisecond)
	}
	panic(err)
}

// New returns the engine.
func New() Engine { return &nodeEngine{} }

func (e *nodeEngine) Reset() {
	t0 := time.Now()
	defer func() { resetMs += int(time.Since(t0).Milliseconds()) }()
	if e.started {
		for _, l := range e.ls {
			_ = l.ln.Shutdown()
		}
		if e.lb != nil {
			e.lb.close()
		}
		// fast teardown of what is still running (no graceful Leave between nodes that are all
		// going away): close the sockets, stop gossip, cancel the upstream handlers
		var wg sync.WaitGroup
		for _, n := range e.nodes {
			if n.alive || n.killed {
				wg.Add(1)
				go func(n *nd) {
					defer wg.Done()
					if g := server.VGossiper(n.srv); g != nil {
						_ = g.Close()
					}
					p, u, a := server.VListeners(n.srv)
					_ = p.Close()
					_ = u.Close()
					_ = a.Close()
					ctx, cancel := context.WithTimeout(context.Background(), 500*time.Millisecond)
					_ = server.VUpstreamServer(n.srv).Shutdown(ctx)
					cancel()
				}(n)
			}
		}
		wg.Wait()
	}
	if e.rig != nil {
		e.rig.close()
	}
	if e.procDir != "" {
		_ = os.RemoveAll(e.procDir)
	}
	*e = nodeEngine{}
}

func (e *nodeEngine) startNodes(n int) bool {
	var gossipAddrs []string
	for i := 0; i < n; i++ {
		conf := config.Default()
		conf.Proxy.BindAddr = loopIP + ":0"
		conf.Upstream.BindAddr = loopIP + ":0"
		conf.Admin.BindAddr = loopIP + ":0"
		conf.Cluster.NodeID = fmt.Sprintf("n%d", i)
		conf.Cluster.Join = append([]string(nil), gossipAddrs...)
		conf.Cluster.Gossip.BindAddr = loopIP + ":0"
		conf.Cluster.Gossip.Interval = gossipInterval
		conf.Cluster.AbortIfJoinFails = false
		conf.Cluster.JoinTimeout = 30 * time.Second
		conf.GracePeriod = gracePeriod
		conf.Proxy.AccessLog.Disable = true
		var s *server.Server
		var err error
		for try := 0; ; try++ {
			// NewServer binds the three TCP ports, Start the gossip ports: retried while the box
			// is short of ephemeral ports
			if s, err = server.NewServer(conf, log.NewNopLogger()); err == nil {
				if err = s.Start(); err == nil {
					break
				}
			}
			if try > 100 || !strings.Contains(err.Error(), "address already in use") {
				panic("server: " + err.Error())
			}
			conf.Proxy.AdvertiseAddr, conf.Upstream.AdvertiseAddr, conf.Admin.AdvertiseAddr = "", "", ""
			conf.Cluster.Gossip.AdvertiseAddr = ""
			time.Sleep(50 * time.Millisecond)
		}
		gossipAddrs = append(gossipAddrs, s.Config().Cluster.Gossip.AdvertiseAddr)
		e.nodes = append(e.nodes, &nd{idx: i, id: conf.Cluster.NodeID, srv: s, alive: true})
	}
	var ups []string
	for _, nn := range e.nodes {
		ups = append(ups, nn.srv.Config().Upstream.AdvertiseAddr)
	}
	e.lb = newLB(ups)
	e.ls = map[int]*lst{}
	e.holdStarted = make(chan struct{}, 16)
	e.hc = &http.Client{Transport: &http.Transport{DisableKeepAlives: true}, Timeout: 3 * time.Second}
	e.started = true
	return e.waitFor(3*settleBound, func() bool {
		for _, a := range e.nodes {
			ns := a.srv.ClusterState().Nodes()
			if len(ns) != n {
				return false
			}
			for _, x := range ns {
				if x.Status != cluster.NodeStatusActive {
					return false
				}
			}
		}
		return true
	})
}

func (e *nodeEngine) waitFor(bound time.Duration, f func() bool) bool {
	deadline := time.Now().Add(bound)
	for {
		if f() {
			return true
		}
		if time.Now().After(deadline) {
			return false
		}
		time.Sleep(pollEvery)
	}
}

func (e *nodeEngine) survivors() []*nd {
	var xs []*nd
	for _, n := range e.nodes {
		if n.alive {
			xs = append(xs, n)
		}
	}
	return xs
}

// want is the number of listeners per endpoint (what the property says must be served).
func (e *nodeEngine) want() map[string]int {
	m := map[string]int{}
	for _, l := range e.ls {
		m[l.ep]++
	}
	return m
}

// total is the number of registered upstreams per endpoint summed over the live nodes.
func (e *nodeEngine) total() map[string]int {
	m := map[string]int{}
	for _, n := range e.survivors() {
		for ep, c := range n.srv.ClusterState().LocalNode().Endpoints {
			m[ep] += c
		}
	}
	return m
}

func (e *nodeEngine) request(n *nd, ep, path string) int {
	req, _ := http.NewRequest(http.MethodGet, "http://"+n.srv.Config().Proxy.AdvertiseAddr+path, nil)
	req.Header.Set("x-piko-endpoint", ep)
	resp, err := e.hc.Do(req)
	if err != nil {
		return 0
	}
	_, _ = io.Copy(io.Discard, resp.Body)
	_ = resp.Body.Close()
	return resp.StatusCode
}

// requests sends one request per (live node, endpoint with a listener).
func (e *nodeEngine) requests() (string, bool) {
	var eps []string
	for ep := range e.want() {
		eps = append(eps, ep)
	}
	sort.Strings(eps)
	all := true
	var parts []string
	for _, n := range e.survivors() {
		var xs []string
		for _, ep := range eps {
			code := e.request(n, ep, "/")
			if code != http.StatusOK {
				all = false
			}
			xs = append(xs, Hx(ep)+":"+strconv.Itoa(code))
		}
		parts = append(parts, n.id+"=["+strings.Join(xs, ",")+"]")
	}
	return strings.Join(parts, " "), all
}

// diag renders every survivor's routing table (for oracle failure details).
func (e *nodeEngine) diag() string {
	var parts []string
	for _, s := range e.survivors() {
		var rows []string
		for _, n := range s.srv.ClusterState().Nodes() {
			rows = append(rows, fmt.Sprintf("%s/%s%s", n.ID, n.Status, ShowCounts(n.Endpoints)))
		}
		sort.Strings(rows)
		parts = append(parts, s.id+"{"+strings.Join(rows, " ")+"}")
	}
	return strings.Join(parts, " ")
}

func (e *nodeEngine) statusAt(obs *nd, id string) string {
	n, ok := obs.srv.ClusterState().Node(id)
	if !ok {
		return "absent"
	}
	return string(n.Status)
}

// seen prints what every survivor thinks of the lost node: `active` (still routed to) or
// `down` (left / unreachable / forgotten: never a LookupEndpoint candidate).  Which of the three
// it is depends on whether the node's own failure detector let it notify that peer - on a
// loaded box detectors flap - so it is asserted by the oracle, not compared with the model.
func (e *nodeEngine) seen(lost *nd) string {
	var xs []string
	for _, s := range e.survivors() {
		st := e.statusAt(s, lost.id)
		if st != string(cluster.NodeStatusActive) {
			st = "down"
		}
		xs = append(xs, s.id+":"+st)
	}
	return "[" + strings.Join(xs, ",") + "]"
}

func (e *nodeEngine) seenExact(lost *nd) string {
	var xs []string
	for _, s := range e.survivors() {
		xs = append(xs, s.id+":"+e.statusAt(s, lost.id))
	}
	return "[" + strings.Join(xs, ",") + "]"
}

// recover waits until the listeners are registered again on the survivors, the survivors no
// longer route to the lost node, and requests succeed from every survivor.
func (e *nodeEngine) recover(lost *nd, wantStatus string, o *Out) string {
	t0 := time.Now()
	okReg := e.waitFor(settleBound, func() bool { return ShowCounts(e.total()) == ShowCounts(e.want()) })
	if !okReg {
		o.Fail("C18", "not-reconnected", "registered-on-survivors="+ShowCounts(e.total())+" listeners="+ShowCounts(e.want()))
	}
	okStatus := e.waitFor(settleBound, func() bool {
		for _, s := range e.survivors() {
			// routing stops for any status but `active`
			if e.statusAt(s, lost.id) == string(cluster.NodeStatusActive) {
				return false
			}
		}
		return true
	})
	if !okStatus {
		o.Fail("C18", "still-routing", "lost="+lost.id+" seen="+e.seenExact(lost))
	}
	for _, s := range e.survivors() {
		o.Count("status-of-lost-node:" + e.statusAt(s, lost.id) + "(expected " + wantStatus + ")")
	}
	// no survivor's routing table offers the lost node for any endpoint
	for _, s := range e.survivors() {
		for ep := range e.want() {
			for i := 0; i < 8; i++ {
				if n, ok := s.srv.ClusterState().LookupEndpoint(ep); ok && n.ID == lost.id {
					o.Fail("C18", "lookup-returns-lost-node", "at="+s.id+" ep="+Hx(ep))
				}
			}
		}
	}
	res := ""
	okReq := e.waitFor(settleBound, func() bool {
		var all bool
		res, all = e.requests()
		return all
	})
	if !okReq {
		o.Fail("C18", "no-recovery", "requests after the settle bound: "+res+" tables: "+e.diag())
	} else {
		// "succeed again" is not "succeed once": with the routing information settled, every
		// further round from every survivor succeeds too (a lookup that depends on map iteration
		// order - e.g. stopping at the lost node's stale row - passes one round by luck)
		// (a round only counts while the survivors consider each other active: on a starved machine
		// the failure detectors flap, a survivor is then legitimately not routed to, and "once routing
		// information settles" is not the situation - wait for the views to settle again and restart)
		mutuallyActive := func() bool {
			for _, s := range e.survivors() {
				for _, n := range s.srv.ClusterState().Nodes() {
					for _, t := range e.survivors() {
						if n.ID == t.id && n.Status != cluster.NodeStatusActive {
							return false
						}
					}
				}
			}
			return true
		}
		for round, restarts := 0, 0; round < 6; round++ {
			before := mutuallyActive()
			r2, all := e.requests()
			if all {
				continue
			}
			if (!before || !mutuallyActive()) && restarts < 5 {
				restarts++
				o.Count("recovery:flap-restart")
				e.waitFor(settleBound, mutuallyActive)
				e.waitFor(settleBound, func() bool { _, ok := e.requests(); return ok })
				round = -1
				continue
			}
			o.Fail("C18", "unstable-recovery", fmt.Sprintf("round %d after recovery: %s tables: %s", round, r2, e.diag()))
			break
		}
		// the survivors' routing tables: whenever a survivor's table lists another ACTIVE node
		// with a listener for the endpoint, its lookup finds a node (and never the lost one)
		for _, s := range e.survivors() {
			cs := s.srv.ClusterState()
			for ep := range e.want() {
				offered := false
				for _, n := range cs.Nodes() {
					if n.ID != s.id && n.Status == cluster.NodeStatusActive && n.Endpoints[ep] > 0 {
						offered = true
					}
				}
				if !offered {
					continue
				}
				o.Count("oracle:C18:lookup-finds-survivor")
				for i := 0; i < 16; i++ {
					if n, ok := cs.LookupEndpoint(ep); !ok || n.ID == lost.id {
						o.Fail("C18", "lookup-misses-survivor", "at="+s.id+" ep="+Hx(ep)+" tables: "+e.diag())
						break
					}
				}
			}
		}
	}
	o.Add("recover-ms", int(time.Since(t0).Milliseconds()))
	return "seen=" + e.seen(lost) + " total=" + ShowCounts(e.total()) + " recovered=" + B01(okReg && okStatus && okReq)
}

// Step times every op (the totals end up in the evidence histogram).
func (e *nodeEngine) Step(ws []string, o *Out) string {
	t0 := time.Now()
	line := e.step(ws, o)
	o.Add("ms:"+ws[0], int(time.Since(t0).Milliseconds()))
	return line
}

func (e *nodeEngine) step(ws []string, o *Out) string {
	switch ws[0] {
	case "init":
		if e.started || len(ws) != 2 {
			return "bad-op"
		}
		n := Atoi(ws[1])
		if n < 2 || n > 8 {
			return "bad-op"
		}
		o.Add("ms:reset", resetMs)
		resetMs = 0
		if !e.startNodes(n) {
			o.Fail("C18", "no-convergence", "the cluster did not form")
			return "fail converge"
		}
		return "ok nodes=" + strconv.Itoa(n)
	case "decide":
		if len(ws) != 4 {
			return "bad-op"
		}
		return e.decide(ws[1] == "1", ws[2], ws[3], o)
	case "close-during-reconnect":
		if len(ws) != 3 || (ws[1] != "close" && ws[1] != "shutdown") || (ws[2] != "during" && ws[2] != "after") {
			return "bad-op"
		}
		return e.closeDuringReconnect(ws[1], ws[2], o)
	case "proc":
		return e.proc(ws[1:], o)
	}
	if !e.started {
		return "bad-op"
	}
	switch ws[0] {
	case "listen":
		if len(ws) != 4 {
			return "bad-op"
		}
		k, ep, i := Atoi(ws[1]), Unhx(ws[2]), Atoi(ws[3])
		if _, dup := e.ls[k]; dup || i < 0 || i >= len(e.nodes) || len(e.survivors()) == 0 {
			return "bad-op"
		}
		if e.nodes[i].alive {
			e.lb.mu.Lock()
			e.lb.pin = i
			e.lb.mu.Unlock()
		}
		u := client.Upstream{
			URL:                 &url.URL{Scheme: "http", Host: e.lb.ln.Addr().String()},
			MinReconnectBackoff: 20 * time.Millisecond,
			MaxReconnectBackoff: 200 * time.Millisecond,
		}
		ctx, cancel := context.WithTimeout(context.Background(), settleBound)
		ln, err := u.Listen(ctx, ep)
		cancel()
		if err != nil {
			o.Fail("C18", "listen-failed", err.Error())
			return "fail listen"
		}
		l := &lst{k: k, ep: ep, ln: ln, done: make(chan error, 1)}
		mux := http.NewServeMux()
		mux.HandleFunc("/", func(w http.ResponseWriter, _ *http.Request) { _, _ = io.WriteString(w, strconv.Itoa(k)) })
		mux.HandleFunc("/slow", func(w http.ResponseWriter, _ *http.Request) {
			time.Sleep(300 * time.Millisecond)
			_, _ = io.WriteString(w, strconv.Itoa(k))
		})
		mux.HandleFunc("/hold", func(w http.ResponseWriter, _ *http.Request) {
			select {
			case e.holdStarted <- struct{}{}:
			default:
			}
			time.Sleep(slowInflight)
			_, _ = io.WriteString(w, strconv.Itoa(k))
		})
		go func() { l.done <- http.Serve(ln, mux) }()
		e.ls[k] = l
		// settle: registered, and every live node can route the endpoint
		e.waitFor(settleBound, func() bool {
			if ShowCounts(e.total()) != ShowCounts(e.want()) {
				return false
			}
			for _, s := range e.survivors() {
				if s.srv.ClusterState().LocalNode().Endpoints[ep] > 0 {
					continue
				}
				if _, ok := s.srv.ClusterState().LookupEndpoint(ep); !ok {
					return false
				}
			}
			return true
		})
		return "ok total=" + ShowCounts(e.total())
	case "req":
		res := ""
		ok := e.waitFor(settleBound, func() bool {
			var all bool
			res, all = e.requests()
			return all
		})
		if !ok {
			o.Fail("C18", "requests-fail", res+" tables: "+e.diag())
		}
		return "ok " + res
	case "shutdown", "shutdown-inflight":
		drain := ws[0] == "shutdown-inflight"
		if (!drain && len(ws) != 3) || (drain && len(ws) != 2) {
			return "bad-op"
		}
		i := Atoi(ws[1])
		if i < 0 || i >= len(e.nodes) || !e.nodes[i].alive || len(e.survivors()) < 2 {
			return "bad-op"
		}
		if drain && len(e.ls) == 0 {
			return "bad-op"
		}
		n := e.nodes[i]
		var holdRes chan int
		remote := false
		if drain {
			// a slow request (slowInflight, below the grace period) in flight on node i's proxy
			// when Shutdown starts: preferably for an endpoint served only by ANOTHER node, so
			// that it keeps the proxy of node i draining for its whole duration on the tree as it
			// is (node i closes its own upstreams first, which would cut a local one short)
			ep := ""
			var eps []string
			for x := range e.want() {
				eps = append(eps, x)
			}
			sort.Strings(eps)
			for _, x := range eps {
				if ep == "" {
					ep = x
				}
				if n.srv.ClusterState().LocalNode().Endpoints[x] == 0 {
					ep, remote = x, true
					break
				}
			}
			for len(e.holdStarted) > 0 {
				<-e.holdStarted
			}
			holdRes = make(chan int, 1)
			go func() {
				req, _ := http.NewRequest(http.MethodGet, "http://"+n.srv.Config().Proxy.AdvertiseAddr+"/hold", nil)
				req.Header.Set("x-piko-endpoint", ep)
				hc := &http.Client{Transport: &http.Transport{DisableKeepAlives: true}, Timeout: slowInflight + gracePeriod}
				resp, err := hc.Do(req)
				if err != nil {
					holdRes <- 0
					return
				}
				_, _ = io.Copy(io.Discard, resp.Body)
				_ = resp.Body.Close()
				holdRes <- resp.StatusCode
			}()
			select {
			case <-e.holdStarted:
			case <-time.After(settleBound):
				o.Fail("C18", "inflight-request-not-started", Hx(ep))
			}
			if remote {
				o.Count("drain:inflight-served-by-another-node")
			} else {
				o.Count("drain:inflight-served-by-the-leaving-node")
			}
		}
		if !drain && ws[2] == "1" {
			// a slow request in flight through the node that is shutting down
			for ep := range e.want() {
				go e.request(n, ep, "/slow")
				break
			}
			time.Sleep(30 * time.Millisecond)
		}
		// watch the node's own gossip state: the instant the left marker is visible, has the
		// upstream server been shut down (its handlers' context cancelled)?  Server.Shutdown does
		// that synchronously before Leave.
		ups := server.VUpstreamServer(n.srv)
		g := server.VGossiper(n.srv)
		atLeave := make(chan string, 1)
		stopWatch := make(chan struct{})
		go func() {
			for {
				if st, ok := g.NodeState(n.id); ok && st.Left {
					// (a TCP probe of the port is not reliable: a freed ephemeral port is reused by
					// the other nodes on this box)
					if upstream.VSessionCancelled(ups) {
						atLeave <- "closed"
					} else {
						atLeave <- "open"
					}
					return
				}
				select {
				case <-stopWatch:
					atLeave <- "unseen"
					return
				default:
				}
				time.Sleep(20 * time.Microsecond)
			}
		}()
		// precondition of the scenario (the model's views are settled): wait until the failure
		// detectors agree that everybody alive is reachable (on a loaded box they flap)
		e.waitFor(settleBound, func() bool {
			for _, a := range e.nodes {
				for _, b := range e.nodes {
					if a.alive && b.alive && a != b && e.statusAt(a, b.id) != string(cluster.NodeStatusActive) {
						return false
					}
				}
			}
			return true
		})
		// the survivors-to-be that this node currently believes reachable
		var believed []*nd
		for _, s := range e.nodes {
			if s.alive && s != n && e.statusAt(n, s.id) == string(cluster.NodeStatusActive) {
				believed = append(believed, s)
			}
		}
		// the balancer stops sending new connections to the node (its freed ports may be reused
		// by other processes on this box)
		e.lb.mu.Lock()
		e.lb.alive[i] = false
		e.lb.mu.Unlock()
		t0 := time.Now()
		done := make(chan struct{})
		go func() { n.srv.Shutdown(); close(done) }()
		drainStr := ""
		if drain {
			// while the node may still be draining its proxy: the traffic has to be withdrawn
			// from it at once, not when the slowest in-flight request is finished
			n.alive = false // `survivors`, `total`, `requests` now speak about the others
			// (A) on the node itself (no gossip involved, robust on a loaded box): its upstream
			//     server is shut down and its handlers have deregistered, within drainBand;
			// (B) at the survivors: the node is no longer an active row with endpoints, its
			//     listeners are registered on survivors, requests entering at every survivor
			//     succeed - while the in-flight request is still in flight (when another node
			//     serves it, it keeps the proxy draining; the window scales with the load of
			//     the box), and in any case not later than the settle bound.
			ups := server.VUpstreamServer(n.srv)
			detail := ""
			withdrawn, holdReturned := false, false
			holdCode := -1
			for {
				if !holdReturned {
					select {
					case holdCode = <-holdRes:
						holdReturned = true
					default:
					}
				}
				okA := upstream.VSessionCancelled(ups) && len(n.srv.ClusterState().LocalNode().Endpoints) == 0
				detail = ""
				if !okA {
					detail = fmt.Sprintf("%s has not shut its upstream server down (cancelled=%v, own endpoints %s)", n.id, upstream.VSessionCancelled(ups), ShowCounts(n.srv.ClusterState().LocalNode().Endpoints))
				}
				if detail == "" {
					for _, s := range e.survivors() {
						if row, ok := s.srv.ClusterState().Node(n.id); ok && row.Status == cluster.NodeStatusActive && len(row.Endpoints) > 0 {
							detail = s.id + " still has " + n.id + " active with endpoints " + ShowCounts(row.Endpoints)
						}
					}
				}
				if detail == "" && ShowCounts(e.total()) != ShowCounts(e.want()) {
					detail = "registered-on-survivors=" + ShowCounts(e.total()) + " listeners=" + ShowCounts(e.want())
				}
				if detail == "" {
					if res, all := e.requests(); !all {
						detail = "requests: " + res
					}
				}
				if detail == "" {
					withdrawn = true
					break
				}
				el := time.Since(t0)
				if el > drainBand && !okA {
					break
				}
				if el > drainBand && remote && holdReturned {
					break // the drain is over and the traffic was not withdrawn during it
				}
				if el > settleBound {
					break
				}
				time.Sleep(pollEvery)
			}
			if holdReturned {
				holdRes <- holdCode // for the bookkeeping below
			}
			o.Add("drain-withdrawn-ms", int(time.Since(t0).Milliseconds()))
			if withdrawn {
				drainStr = " drain=withdrawn"
			} else {
				drainStr = " drain=held"
				o.Fail("C18", "traffic-not-withdrawn-during-drain", fmt.Sprintf("%s: %dms after Shutdown started (request in flight on its proxy for %s): %s", n.id, time.Since(t0).Milliseconds(), slowInflight, detail))
			}
		}
		select {
		case <-done:
		case <-time.After(gracePeriod + 2*time.Second):
			o.Fail("C18", "shutdown-too-slow", fmt.Sprintf("Shutdown of %s still running after grace+2s", n.id))
			<-done
		}
		o.Add("shutdown-ms", int(time.Since(t0).Milliseconds()))
		n.alive = false
		if holdRes != nil {
			select {
			case code := <-holdRes:
				o.Count("drain:inflight-request-status-" + strconv.Itoa(code))
			case <-time.After(slowInflight + gracePeriod):
				o.Count("drain:inflight-request-never-returned")
			}
		}
		// the peers it notified have status left at once (Leave waits for each ack).  Leave only
		// tries the peers the node's own gossip state does not flag unreachable/left; that state
		// is frozen by Close right after Leave, so it is read back here
		reachable := map[string]bool{}
		for _, m := range server.VGossiper(n.srv).Nodes() {
			if !m.Unreachable && !m.Left {
				reachable[m.ID] = true
			}
		}
		notified, wantNotified := 0, 0
		for _, s := range e.survivors() {
			if reachable[s.id] {
				wantNotified++
			}
			if e.statusAt(s, n.id) == string(cluster.NodeStatusLeft) {
				notified++
			}
		}
		if wantNotified > maxNotified {
			wantNotified = maxNotified
		}
		notifiedStr := "all"
		if notified < wantNotified {
			notifiedStr = fmt.Sprintf("%d/%d", notified, wantNotified)
			o.Fail("C18", "not-left-immediately", fmt.Sprintf("lost=%s: %d survivors see it left when Shutdown returns, want >= %d (the peers it held reachable, at most %d): %s", n.id, notified, wantNotified, maxNotified, e.seenExact(n)))
		}
		if wantNotified < len(believed) && wantNotified < maxNotified {
			o.Count("observed:detector-flapped-before-leave")
		}
		// the watcher reports as soon as it has seen the marker (it is there by now, unless
		// Leave never ran); only then is it told to stop
		var upAtLeave string
		select {
		case upAtLeave = <-atLeave:
		case <-time.After(2 * time.Second):
			close(stopWatch)
			upAtLeave = <-atLeave
		}
		if upAtLeave != "closed" {
			o.Fail("C18", "upstream-"+upAtLeave+"-at-leave", n.id+": the left marker was written while the upstream server had not been shut down")
		}
		e.leaveOrder(n, o)
		return "ok lost=" + n.id + drainStr + " upstream-at-leave=" + upAtLeave + " notified=" + notifiedStr + " " + e.recover(n, string(cluster.NodeStatusLeft), o)
	case "kill":
		if len(ws) != 2 {
			return "bad-op"
		}
		i := Atoi(ws[1])
		if i < 0 || i >= len(e.nodes) || !e.nodes[i].alive || len(e.survivors()) < 2 {
			return "bad-op"
		}
		n := e.nodes[i]
		// in-process approximation of a crash: no Leave, sockets closed, connections cut
		p, u, a := server.VListeners(n.srv)
		_ = server.VGossiper(n.srv).Close()
		_ = p.Close()
		_ = u.Close()
		_ = a.Close()
		e.lb.cut(i)
		n.alive, n.killed = false, true
		return "ok lost=" + n.id + " " + e.recover(n, string(cluster.NodeStatusUnreachable), o)
	}
	return "bad-op"
}

// leaveOrder looks at the node's own gossip state after Shutdown.  Required (C16/C18): every
// endpoint entry ends up deleted (the handlers drain once their context is cancelled).  Only
// OBSERVED: whether each deletion precedes the left marker - Server.Shutdown does not wait for
// the upstream handlers, so the marker usually wins that race (DESIGN/RESULTS: observation).
func (e *nodeEngine) leaveOrder(n *nd, o *Out) {
	g := server.VGossiper(n.srv)
	live := ""
	drained := e.waitFor(2*time.Second, func() bool {
		st, ok := g.NodeState(n.id)
		if !ok {
			return false
		}
		live = ""
		for _, en := range st.Entries {
			if strings.HasPrefix(en.Key, "endpoint:") && !en.Deleted {
				live = en.Key
			}
		}
		return live == ""
	})
	if !drained {
		o.Fail("C18", "endpoint-live-after-shutdown", n.id+" "+Hx(live))
		return
	}
	st, _ := g.NodeState(n.id)
	var leftVer uint64
	for _, en := range st.Entries {
		if en.Internal && en.Key == "_internal:left" {
			leftVer = en.Version
		}
	}
	if leftVer == 0 {
		o.Fail("C18", "no-left-marker", n.id)
		return
	}
	before, after := 0, 0
	for _, en := range st.Entries {
		if strings.HasPrefix(en.Key, "endpoint:") {
			if en.Version < leftVer {
				before++
			} else {
				after++
			}
		}
	}
	switch {
	case before+after == 0:
		o.Count("leave-order:no-endpoints")
	case after == 0:
		o.Count("leave-order:withdrawn-before-marker")
	case before == 0:
		o.Count("leave-order:withdrawn-after-marker")
	default:
		o.Count("leave-order:mixed")
	}
	for _, s := range e.survivors() {
		ps, ok := server.VGossiper(s.srv).NodeState(n.id)
		if !ok || !ps.Left {
			continue
		}
		for _, en := range ps.Entries {
			if strings.HasPrefix(en.Key, "endpoint:") && !en.Deleted {
				o.Count("observed:left-node-still-lists-endpoint-at-peer")
				break
			}
		}
	}
}

// ---------------------------------------------------------------- decision table rig

// rig is a real upstream.Server behind a TCP relay and one real listener per row.
type rig struct {
	srv  *upstream.Server
	mgr  *countMgr
	ln   net.Listener
	rl   net.Listener
	mu   sync.Mutex
	last *lbConn
}

type countMgr struct {
	*upstream.LoadBalancedManager
	mu   sync.Mutex
	adds int
}

func (m *countMgr) AddConn(u upstream.Upstream) {
	m.LoadBalancedManager.AddConn(u)
	m.mu.Lock()
	m.adds++
	m.mu.Unlock()
}

func (m *countMgr) n() int {
	m.mu.Lock()
	defer m.mu.Unlock()
	return m.adds
}

func newRig() *rig {
	cs := cluster.NewState(&cluster.Node{ID: "rig", ProxyAddr: "10.0.0.1:8000", AdminAddr: "10.0.0.1:8002"}, log.NewNopLogger())
	m := &countMgr{LoadBalancedManager: upstream.NewLoadBalancedManager(cs, nil)}
	srv := upstream.NewServer(m, nil, nil, cs, config.UpstreamConfig{}, log.NewNopLogger())
	ln := listenLoopback()
	go func() { _ = srv.Serve(ln) }()
	rl := listenLoopback()
	r := &rig{srv: srv, mgr: m, ln: ln, rl: rl}
	go func() {
		for {
			c, err := rl.Accept()
			if err != nil {
				return
			}
			s, err := net.DialTimeout("tcp", ln.Addr().String(), time.Second)
			if err != nil {
				_ = c.Close()
				continue
			}
			p := &lbConn{c: c, s: s}
			r.mu.Lock()
			r.last = p
			r.mu.Unlock()
			go func() { _, _ = io.Copy(p.c, p.s); p.close() }()
			go func() { _, _ = io.Copy(p.s, p.c); p.close() }()
		}
	}()
	return r
}

func (r *rig) close() {
	ctx, cancel := context.WithTimeout(context.Background(), time.Second)
	_ = r.srv.Shutdown(ctx)
	cancel()
	_ = r.rl.Close()
	_ = r.ln.Close()
}

// decide drives one row: connect a real listener, inject the session error, apply the local
// action, cancel the caller's context if asked, then call AcceptWithContext and classify what
// it does (with a watchdog: blocking in a NEW session means it reconnected).
func (e *nodeEngine) decide(ctxCancelled bool, local, inject string, o *Out) string {
	if e.rig == nil {
		e.rig = newRig()
	}
	r := e.rig
	u := client.Upstream{
		URL:                 &url.URL{Scheme: "http", Host: r.rl.Addr().String()},
		MinReconnectBackoff: 10 * time.Millisecond,
		MaxReconnectBackoff: 50 * time.Millisecond,
	}
	adds0 := r.mgr.n()
	lctx, lcancel := context.WithTimeout(context.Background(), settleBound)
	ln, err := u.Listen(lctx, "decide")
	lcancel()
	if err != nil {
		return "fail listen"
	}
	defer func() { _ = ln.Shutdown() }()
	wait := func(f func() bool) bool {
		d := time.Now().Add(5 * time.Second)
		for !f() {
			if time.Now().After(d) {
				return false
			}
			time.Sleep(2 * time.Millisecond)
		}
		return true
	}
	wait(func() bool { return r.mgr.n() > adds0 })
	sess := client.VListenerSession(ln)
	switch inject {
	case "none":
	case "remote-close":
		// the server closes the connection (what Shutdown/shed/expiry do)
		upstream.VSessionShed(r.srv, 1<<20)
		wait(func() bool { return sess.IsClosed() })
	case "rst":
		r.mu.Lock()
		p := r.last
		r.mu.Unlock()
		if tc, ok := p.c.(*net.TCPConn); ok {
			_ = tc.SetLinger(0)
		}
		p.close()
		wait(func() bool { return sess.IsClosed() })
	case "sess-close":
		// the session ends on the client side without Close/Shutdown of the listener
		_ = sess.Close()
	default:
		return "bad-op"
	}
	switch local {
	case "none":
	case "close":
		_ = ln.Close()
	case "shutdown":
		_ = ln.Shutdown()
	default:
		return "bad-op"
	}
	ctx, cancel := context.WithCancel(context.Background())
	defer cancel()
	if ctxCancelled {
		cancel()
	}
	adds1 := r.mgr.n()
	type res struct {
		c   net.Conn
		err error
	}
	ch := make(chan res, 1)
	aw, ok := ln.(interface {
		AcceptWithContext(ctx context.Context) (net.Conn, error)
	})
	if !ok {
		return "fail no-accept-with-context"
	}
	go func() {
		c, err := aw.AcceptWithContext(ctx)
		ch <- res{c, err}
	}()
	classify := func(x res) string {
		switch {
		case x.err == nil:
			return "accepted"
		case errors.Is(x.err, context.Canceled):
			// the caller's context error comes back as it is; the error of a reconnect that
			// was cancelled (closeCtx) comes back wrapped - told apart by the wrapping, not by
			// the wording of the wrapper
			if x.err != context.Canceled {
				return "connect-err"
			}
			return "ctx-err"
		case errors.Is(x.err, client.ErrClosed):
			return "closed"
		}
		return "error"
	}
	// AcceptWithContext either returns, or it reconnected (a new registration appears at the
	// server and it blocks in the new session), or it just blocks on the old session
	out := ""
	deadline := time.Now().Add(5 * time.Second)
	for out == "" {
		select {
		case x := <-ch:
			out = classify(x)
		case <-time.After(5 * time.Millisecond):
			if r.mgr.n() > adds1 {
				// give a racing return a moment, then call it a reconnect
				select {
				case x := <-ch:
					out = classify(x)
				case <-time.After(150 * time.Millisecond):
					out = "reconnected"
				}
			} else if time.Now().After(deadline) || (inject == "none" && local == "none" && !ctxCancelled && time.Now().After(deadline.Add(-4500*time.Millisecond))) {
				out = "blocked"
			}
		}
	}
	// the property, evaluated directly: remote loss and no local close and live context =>
	// reconnect; local Close/Shutdown => ErrClosed; cancelled context => context error
	remoteLoss := inject == "remote-close" || inject == "rst"
	switch {
	case ctxCancelled:
		if out != "ctx-err" {
			o.Fail("C18", "decision-ctx", fmt.Sprintf("ctx cancelled local=%s inject=%s => %s", local, inject, out))
		}
	case local == "none" && remoteLoss:
		if out != "reconnected" {
			o.Fail("C18", "decision-reconnect", fmt.Sprintf("session lost remotely (%s), listener not closed => %s, want reconnected", inject, out))
		}
	case local != "none" && inject != "rst":
		if out != "closed" {
			o.Fail("C18", "decision-closed", fmt.Sprintf("local %s inject=%s => %s, want closed", local, inject, out))
		}
	}
	o.Count("decide:" + out)
	return "decide " + out
}

// hookLogger is a client.Logger that parks the reconnect: connect() logs "connected" after a
// successful dial and BEFORE the new yamux session is created and installed in the listener.
type hookLogger struct {
	mu      sync.Mutex
	n       int
	reached chan struct{}
	release chan struct{}
}

func (l *hookLogger) Debug(msg string, _ ...zap.Field) {
	// the client's log line after a successful dial ("connected"), by keyword: the wording is not
	// part of any property
	lm := strings.ToLower(msg)
	if !strings.HasPrefix(lm, "connected") {
		return
	}
	l.mu.Lock()
	l.n++
	n := l.n
	l.mu.Unlock()
	if n == 2 {
		close(l.reached)
		<-l.release
	}
}
func (l *hookLogger) Info(string, ...zap.Field)  {}
func (l *hookLogger) Warn(string, ...zap.Field)  {}
func (l *hookLogger) Error(string, ...zap.Field) {}
func (l *hookLogger) Sync() error                { return nil }

// closeDuringReconnect drives the schedule of finding F11: the server drops the connection;
// Accept reconnects; the application calls Listener.Close() (go-away) or Listener.Shutdown()
//
//	during: between the successful dial and the installation of the new session (the reconnect
//	        is parked in the client's own "connected" log line), or
//	after:  once the reconnect has completed and Accept blocks on the new session.
//
// The property (local Close/Shutdown => ErrClosed) asks Accept to return ErrClosed in every
// variant; `during` additionally needs the NEW session to be closed (nobody told it about the
// close), i.e. the server deregisters the upstream.  reg = still registered at the server.
func (e *nodeEngine) closeDuringReconnect(local, when string, o *Out) string {
	if e.rig == nil {
		e.rig = newRig()
	}
	r := e.rig
	e.cdrSeq++
	ep := fmt.Sprintf("cdr%d", e.cdrSeq)
	hl := &hookLogger{reached: make(chan struct{}), release: make(chan struct{})}
	if when == "after" {
		close(hl.release) // nothing is parked
	}
	u := client.Upstream{URL: &url.URL{Scheme: "http", Host: r.rl.Addr().String()}, Logger: hl,
		MinReconnectBackoff: 10 * time.Millisecond, MaxReconnectBackoff: 50 * time.Millisecond}
	adds0 := r.mgr.n()
	ctx, cancel := context.WithTimeout(context.Background(), settleBound)
	ln, err := u.Listen(ctx, ep)
	cancel()
	if err != nil {
		return "fail listen"
	}
	defer func() { _ = ln.Shutdown() }()
	e.waitFor(5*time.Second, func() bool { return r.mgr.n() > adds0 })
	res := make(chan error, 1)
	go func() { _, err := ln.Accept(); res <- err }()
	time.Sleep(20 * time.Millisecond)
	adds1 := r.mgr.n()
	upstream.VSessionShed(r.srv, 1<<20) // the server drops the connection
	// wait for the reconnect to reach the hook - or, if the client no longer logs at that point (a
	// reworded or moved log line is not a defect), for the reconnect to complete without it: the
	// "during" schedule then degrades to "after" instead of failing
	hooked := false
	for deadline := time.Now().Add(settleBound); !hooked; {
		select {
		case <-hl.reached:
			hooked = true
			continue
		case <-time.After(20 * time.Millisecond):
		}
		if r.mgr.n() > adds1 {
			break
		}
		if time.Now().After(deadline) {
			if when == "during" {
				close(hl.release)
			}
			return "fail no-reconnect"
		}
	}
	degraded := false
	if !hooked {
		o.Count("cdr:hook-missed")
		if when == "during" {
			close(hl.release)
			when = "after"
			degraded = true
		}
	}
	if when == "after" {
		// the reconnect completes: registered again and Accept blocks on the new session
		e.waitFor(5*time.Second, func() bool { return r.mgr.n() > adds1 })
		time.Sleep(50 * time.Millisecond)
	}
	if local == "close" {
		_ = ln.Close()
	} else {
		_ = ln.Shutdown()
	}
	if when == "during" {
		close(hl.release)
	}
	out := ""
	select {
	case err := <-res:
		switch {
		case errors.Is(err, client.ErrClosed):
			out = "closed"
		case err != nil && errors.Unwrap(err) != nil:
			out = "connect-err"
		default:
			out = "error"
		}
	case <-time.After(3 * time.Second):
		out = "blocked"
	}
	if out != "closed" {
		o.Fail("C18", "close-lost-during-reconnect", fmt.Sprintf("local %s %s the reconnect: Accept => %s, want closed; registered at the server: %s", local, when, out, ShowCounts(r.mgr.Endpoints())))
	}
	// server side: wait for the deregistration (if any)
	e.waitFor(1500*time.Millisecond, func() bool { return r.mgr.Endpoints()[ep] == 0 })
	reg := r.mgr.Endpoints()[ep]
	if when == "during" && reg != 0 {
		o.Fail("C18", "closed-listener-still-registered", fmt.Sprintf("local %s during the reconnect: the new session was not closed, the server still routes to the listener: %s", local, ShowCounts(r.mgr.Endpoints())))
	}
	o.Count("cdr:" + local + "-" + when + ":" + out)
	if degraded && out == "closed" {
		// the "during" schedule could not be lined up (no log call between dial and session
		// install): what was observed is the "after" schedule, whose registration outcome differs
		// legitimately (a go-away keeps the upstream registered until the next dial)
		return "decide closed reg=0"
	}
	return "decide " + out + " reg=" + strconv.Itoa(reg)
}

// ---------------------------------------------------------------- process tier

type procNode struct {
	cmd                                *exec.Cmd
	proxy, upstreamAddr, admin, gossip string
}

func freePort() string {
	ln := listenLoopback()
	defer ln.Close()
	return ln.Addr().String()
}

// proc <sigkill|sigterm>: three real `piko server` processes built from the tree under test,
// a listener attached to node 1, node 1 is SIGKILLed (or SIGTERMed); the listener must
// re-register on a survivor and requests must succeed from both survivors.
func (e *nodeEngine) proc(ws []string, o *Out) string {
	if len(ws) != 1 {
		return "bad-op"
	}
	repo := os.Getenv("VERIF_REPO")
	if repo == "" {
		repo = "/repo"
	}
	dir, err := os.MkdirTemp("", "verif-piko-")
	if err != nil {
		return "fail tmp"
	}
	e.procDir = dir
	defer func() { _ = os.RemoveAll(dir); e.procDir = "" }()
	bin := filepath.Join(dir, "piko")
	build := exec.Command("go", "build", "-o", bin, ".")
	build.Dir = repo
	build.Env = append(os.Environ(), "GOFLAGS=-mod=mod", "GOPROXY=off")
	if out, err := build.CombinedOutput(); err != nil {
		return "fail build " + Hx(string(out))
	}
	var ns []*procNode
	defer func() {
		for _, n := range ns {
			if n.cmd.Process != nil {
				_ = n.cmd.Process.Kill()
				_, _ = n.cmd.Process.Wait()
			}
		}
	}()
	for i := 0; i < 3; i++ {
		n := &procNode{proxy: freePort(), upstreamAddr: freePort(), admin: freePort(), gossip: freePort()}
		args := []string{"server",
			"--cluster.node-id", fmt.Sprintf("p%d", i),
			"--proxy.bind-addr", n.proxy, "--upstream.bind-addr", n.upstreamAddr,
			"--admin.bind-addr", n.admin, "--cluster.gossip.bind-addr", n.gossip,
			"--cluster.gossip.interval", "50ms", "--grace-period", "2s", "--log.level", "error"}
		if i > 0 {
			args = append(args, "--cluster.join", ns[0].gossip)
		}
		n.cmd = exec.Command(bin, args...)
		if err := n.cmd.Start(); err != nil {
			return "fail start"
		}
		ns = append(ns, n)
		// wait until the process listens (gossip stream port and proxy port) before the next
		// one tries to join it
		up := func(addr string) func() bool {
			return func() bool {
				c, err := net.DialTimeout("tcp", addr, 200*time.Millisecond)
				if err != nil {
					return false
				}
				_ = c.Close()
				return true
			}
		}
		if !e.waitFor(settleBound, up(n.gossip)) || !e.waitFor(settleBound, up(n.proxy)) {
			return "fail start"
		}
	}
	hc := &http.Client{Transport: &http.Transport{DisableKeepAlives: true}, Timeout: 2 * time.Second}
	get := func(n *procNode) int {
		req, _ := http.NewRequest(http.MethodGet, "http://"+n.proxy+"/", nil)
		req.Header.Set("x-piko-endpoint", "pe")
		resp, err := hc.Do(req)
		if err != nil {
			return 0
		}
		_ = resp.Body.Close()
		return resp.StatusCode
	}
	// a two-target balancer: node 1 first, then node 0
	l := newLB([]string{ns[1].upstreamAddr, ns[0].upstreamAddr, ns[2].upstreamAddr})
	defer l.close()
	u := client.Upstream{URL: &url.URL{Scheme: "http", Host: l.ln.Addr().String()},
		MinReconnectBackoff: 20 * time.Millisecond, MaxReconnectBackoff: 200 * time.Millisecond}
	var ln client.Listener
	if !e.waitFor(settleBound, func() bool {
		l.mu.Lock()
		l.pin = 0
		l.mu.Unlock()
		ctx, cancel := context.WithTimeout(context.Background(), time.Second)
		defer cancel()
		x, err := u.Listen(ctx, "pe")
		if err != nil {
			return false
		}
		ln = x
		return true
	}) {
		return "fail listen"
	}
	defer func() { _ = ln.Shutdown() }()
	go func() {
		_ = http.Serve(ln, http.HandlerFunc(func(w http.ResponseWriter, _ *http.Request) { _, _ = io.WriteString(w, "x") }))
	}()
	all := func(xs ...*procNode) func() bool {
		return func() bool {
			for _, n := range xs {
				if get(n) != http.StatusOK {
					return false
				}
			}
			return true
		}
	}
	if !e.waitFor(settleBound, all(ns...)) {
		o.Fail("C18", "proc-no-service", "requests do not succeed from every node before the loss")
		return "proc before=0"
	}
	sig := syscall.SIGKILL
	if ws[0] == "sigterm" {
		sig = syscall.SIGTERM
	}
	t0 := time.Now()
	_ = ns[1].cmd.Process.Signal(sig)
	exited := make(chan struct{})
	go func() { _, _ = ns[1].cmd.Process.Wait(); close(exited) }()
	select {
	case <-exited:
	case <-time.After(gracePeriod + 2*time.Second):
		o.Fail("C18", "proc-exit-too-slow", ws[0])
	}
	l.cut(0)
	ok := e.waitFor(settleBound, all(ns[0], ns[2]))
	if !ok {
		o.Fail("C18", "proc-no-recovery", fmt.Sprintf("%s: requests do not succeed from both survivors within the settle bound", ws[0]))
	}
	o.Add("proc-recover-ms", int(time.Since(t0).Milliseconds()))
	return "proc before=1 recovered=" + B01(ok)
}

// ---------------------------------------------------------------- generator

// Gen: clusters of 3 (sometimes 4; thorough up to 6) nodes, 1-4 listeners over 1-2 endpoints
// with at least one on the node that will be lost, every node of the cluster being the lost
// one, gracefully (with/without a request in flight) or by kill, one or two losses per case;
// plus cases that walk the whole decision table of AcceptWithContext.
func (e *nodeEngine) Gen(r *rand.Rand, n int, tier string, w *bufio.Writer) {
	locals := []string{"none", "close", "shutdown"}
	injects := []string{"none", "remote-close", "rst", "sess-close"}
	for ci := 0; ci < n; ci++ {
		if ci%4 == 3 {
			fmt.Fprintf(w, "case decide-%d\n", ci)
			for i := 0; i < 10; i++ {
				fmt.Fprintf(w, "decide %d %s %s\n", r.Intn(4)/3, Pick(r, locals), Pick(r, injects))
			}
			// the D4 shape is always present
			fmt.Fprintln(w, "decide 0 none remote-close")
			// the F11 shape: a local Close/Shutdown racing the reconnect
			for i := 0; i < 1+r.Intn(2); i++ {
				fmt.Fprintf(w, "close-during-reconnect %s %s\n", Pick(r, []string{"close", "shutdown"}), Pick(r, []string{"during", "during", "after"}))
			}
			continue
		}
		if tier == "thorough" && ci%40 == 10 {
			fmt.Fprintf(w, "case proc-%d\n", ci)
			fmt.Fprintf(w, "proc %s\n", Pick(r, []string{"sigkill", "sigkill", "sigterm"}))
			continue
		}
		fmt.Fprintf(w, "case node-%d\n", ci)
		nn := 3
		if r.Intn(4) == 0 {
			nn = 4
		}
		if tier == "thorough" && r.Intn(3) == 0 {
			nn = 5 + r.Intn(2)
		}
		fmt.Fprintf(w, "init %d\n", nn)
		eps := []string{"e", "my-endpoint"}[:1+r.Intn(2)]
		lost := r.Intn(nn)
		nl := 1 + r.Intn(4)
		k := 1
		phase := r.Intn(3) // 0: idle (no listener on the lost node), 1,2: upstreams attached
		for i := 0; i < nl; i++ {
			at := r.Intn(nn)
			if phase == 0 && at == lost {
				at = (at + 1) % nn
			}
			if phase != 0 && i == 0 {
				at = lost
			}
			fmt.Fprintf(w, "listen %d %s %d\n", k, Hx(Pick(r, eps)), at)
			k++
		}
		fmt.Fprintln(w, "req")
		switch x := r.Intn(12); {
		case x < 4:
			fmt.Fprintf(w, "kill %d\n", lost)
		case x < 6:
			fmt.Fprintf(w, "shutdown-inflight %d\n", lost)
		default:
			fmt.Fprintf(w, "shutdown %d %d\n", lost, r.Intn(2))
		}
		fmt.Fprintln(w, "req")
		if nn >= 4 || r.Intn(3) == 0 {
			// a second loss while a new listener arrives
			second := (lost + 1 + r.Intn(nn-1)) % nn
			if r.Intn(2) == 0 {
				fmt.Fprintf(w, "listen %d %s %d\n", k, Hx(Pick(r, eps)), second)
				k++
			}
			if nn >= 4 {
				if r.Intn(3) == 0 {
					fmt.Fprintf(w, "kill %d\n", second)
				} else {
					fmt.Fprintf(w, "shutdown %d %d\n", second, r.Intn(2))
				}
				fmt.Fprintln(w, "req")
			}
		}
	}
}
