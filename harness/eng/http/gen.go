package http

import (
	"bufio"
	"fmt"
	"math/rand"
	"strings"

	. "verifharness/core"
)

var methods = []string{"GET", "GET", "GET", "POST", "POST", "PUT", "DELETE", "PATCH", "HEAD", "OPTIONS", "PURGE", "FOO-BAR", "get", "M-SEARCH"}

// escaped paths and queries that must arrive byte-identical (all are valid request targets for
// Go's parser and are kept verbatim by URL.EscapedPath; see DESIGN/C08 for the excluded class)
var targets = []string{
	"/", "/foo/bar?a=b", "/%2F/x;y?q=%20&q=", "/a%20b", "//double//slash", "/x?", "/x?&&", "/a/../b/./c",
	"/%e4%b8%ad", "/%E4%B8%AD%2f", "/~tilde!$&'()*+,;=:@", "/path%3Fq", "/sp%2520", "/x?q=a+b&r=%2B", "/x?q=;semi;colon",
	"/trailing/", "/a;p=1/b;p=2", "/x?%zz", "/x?a=b=c&&d", "/.well-known/x", "/x%00y", "/[brackets]", "/x?q=%F0%9F%98%80",
	"/very/" + strings.Repeat("long/", 200) + "end?k=" + strings.Repeat("v", 500),
}

var hosts = []string{"example.com", "EXAMPLE.com:8080", "[::1]:9000", "localhost", "127.0.0.1:8000", "a.b.c.d.e", "xn--bcher-kva.example", "e-ok.piko.example.com"}

var epNames = []string{"x-piko-endpoint", "X-Piko-Endpoint", "X-PIKO-ENDPOINT", "x-PiKo-EnDpOiNt"}

type hdr struct{ k, v string }

var reqHeaders = []hdr{
	{"accept", "*/*"}, {"Accept-Language", "en-GB,en;q=0.9"}, {"COOKIE", "a=1"}, {"Cookie", "b=2; c=3"}, {"x-empty", ""},
	{"X-Custom_Header", "v"}, {"authorization", "Bearer abc.def"}, {"x-forwarded-for", "10.1.1.1"}, {"X-Forwarded-Host", "orig.example"},
	{"user-agent", "verif/1.0"}, {"accept-encoding", "br"}, {"Accept-Encoding", "identity"}, {"range", "bytes=0-10"},
	{"content-type", "application/json"}, {"x-dup", "1"}, {"X-Dup", "2"}, {"x-DUP", "3"}, {"x-long", strings.Repeat("L", 3000)},
	{"x-utf8", "caf\xc3\xa9"}, {"x-tab", "a\tb"}, {"x-colon", "a: b, c"}, {"connection", "close"}, {"Connection", "keep-alive, X-Hop"},
	{"x-hop", "bye"}, {"connection", "x-piko-endpoint, close"}, {"CONNECTION", "X-Piko-Forward"}, {"Connection", "X-PIKO-ENDPOINT , x-hop"},
	{"keep-alive", "timeout=5"}, {"te", "trailers"}, {"proxy-authorization", "Basic xyz"}, {"upgrade", "h2c"}, {"x-piko-forward", "false"},
	{"x-piko-forward", "1"}, {"If-None-Match", "\"abc\""}, {"x-a.b", "dot"}, {"x-1", "digit"}, {"Pragma", "x-other"}, {"Cache-Control", "max-age=0"},
}

var respHeaders = []hdr{
	{"Content-Type", "text/plain"}, {"content-type", "application/octet-stream"}, {"X-Resp", "1"}, {"x-resp", "2"}, {"Set-Cookie", "a=1"},
	{"Set-Cookie", "b=2; Path=/"}, {"Cache-Control", "no-store"}, {"ETag", "\"abc\""}, {"Location", "/elsewhere?x=%2F"},
	{"Date", "Mon, 01 Jan 2001 00:00:00 GMT"}, {"X-Empty", ""}, {"Server", "up/1.0"}, {"Vary", "Accept-Encoding"}, {"Keep-Alive", "timeout=1"},
	{"x-utf8", "caf\xc3\xa9"}, {"X-Piko-Forward", "leaked?"}, {"X-Forwarded-For", "9.9.9.9"}, {"Upgrade", "h2c"}, {"x-long", strings.Repeat("R", 2000)},
	{"WWW-Authenticate", "Basic realm=\"x\""}, {"Content-Language", "en"},
}

var statuses = []int{200, 200, 200, 201, 204, 301, 304, 400, 404, 418, 500, 502, 503, 504, 299, 599}

var bodySizes = []int{0, 0, 1, 2, 100, 1000, 4096, 4097, 65536, 70000, 300000}

func kvTok(h hdr) string { return Hx(h.k) + "=" + Hx(h.v) }

func genReq(r *rand.Rand, tier string, w *bufio.Writer) {
	path := Pick(r, []string{"local", "fwd", "local", "fwd", "agent"})
	method := Pick(r, methods)
	target := Pick(r, targets)
	host := Pick(r, hosts)
	var hs []hdr
	useHostRouting := r.Intn(6) == 0
	if useHostRouting {
		host = Pick(r, []string{"e-ok.piko.example.com", "e-ok.x", "e-ok.example.com:8080"})
	}
	n := r.Intn(9)
	for i := 0; i < n; i++ {
		h := Pick(r, reqHeaders)
		if h.k == "x-piko-forward" && path != "local" {
			continue // a client-supplied marker forbids the first node to forward: other property (C06)
		}
		if strings.EqualFold(h.k, "user-agent") && hasName(hs, "user-agent") {
			continue // net/http.Transport forwards only the first User-Agent (library, see checks.d/C08.json)
		}
		hs = append(hs, h)
	}
	if !useHostRouting {
		ep := hdr{Pick(r, epNames), epOK}
		pos := r.Intn(len(hs) + 1)
		hs = append(hs[:pos], append([]hdr{ep}, hs[pos:]...)...)
	}
	bmode, blen := "none", 0
	switch {
	case method == "GET" || method == "HEAD" || method == "get":
		if r.Intn(8) == 0 {
			bmode, blen = "cl", Pick(r, bodySizes)
		}
	default:
		bmode = Pick(r, []string{"cl", "cl", "chunked", "none"})
		if bmode != "none" {
			blen = Pick(r, bodySizes)
			if r.Intn(40) == 0 || (tier == "thorough" && r.Intn(8) == 0) {
				blen = 1 << 20
			}
		}
	}
	status := Pick(r, statuses)
	rmode, rlen := Pick(r, []string{"cl", "cl", "chunked", "close"}), Pick(r, bodySizes)
	if r.Intn(40) == 0 || (tier == "thorough" && r.Intn(8) == 0) {
		rlen = 1 << 20
	}
	if status == 204 || status == 304 {
		rmode, rlen = "none", 0
	}
	if method == "HEAD" {
		rmode = "cl"
	}
	var rhs []hdr
	m := r.Intn(6)
	for i := 0; i < m; i++ {
		h := Pick(r, respHeaders)
		if status == 304 && strings.EqualFold(h.k, "content-type") {
			continue // net/http's server drops Content-Type from a 304 (library)
		}
		rhs = append(rhs, h)
	}
	fmt.Fprintf(w, "req %s %s %s %s %d", path, method, Hx(target), Hx(host), len(hs))
	for _, h := range hs {
		fmt.Fprintf(w, " %s", kvTok(h))
	}
	fmt.Fprintf(w, " %s %d %d %d %s %d %d %d", bmode, blen, r.Intn(1<<30), status, rmode, rlen, r.Intn(1<<30), len(rhs))
	for _, h := range rhs {
		fmt.Fprintf(w, " %s", kvTok(h))
	}
	fmt.Fprintln(w)
}

var failLocal = []string{"noendpoint", "noupstream", "dialerr", "closebefore", "closemid-cl", "closemid-chunked", "slow", "slow-upgrade", "slow-upgrade-case", "fast"}
var failFwd = []string{"noendpoint", "noupstream", "noupstream-remote", "dialerr", "deadnode", "closebefore", "closemid-cl", "closemid-chunked", "slow", "slow-upgrade", "fast"}

var failAgent = []string{"closebefore", "closemid-cl", "closemid-chunked", "slow", "slow-upgrade", "slow-upgrade-case", "fast"}

// the HTTP/2 upstream is a net/http server (no raw framing): the kinds it can play
var failAgentH2 = []string{"closebefore", "slow", "fast", "slow", "closemid-chunked"}

// Gen: 80% transparency cases (no proxy timeout in the way: 30 s), 20% failure-matrix cases on
// a stack whose proxy timeout is 300 ms (slow upstreams answer after 600/900 ms, never within
// 150 ms of the timeout).
func (e *httpEngine) Gen(r *rand.Rand, n int, tier string, w *bufio.Writer) {
	for c := 0; c < n; c++ {
		fmt.Fprintf(w, "case http-%d\n", c)
		if r.Intn(5) == 0 {
			fmt.Fprintln(w, "setup 300")
			k := 3 + r.Intn(4)
			for i := 0; i < k; i++ {
				switch r.Intn(6) {
				case 0, 1:
					fmt.Fprintf(w, "fail local %s\n", Pick(r, failLocal))
				case 2, 3:
					fmt.Fprintf(w, "fail fwd %s\n", Pick(r, failFwd))
				case 4:
					// the agent's reverse proxy in front of a plain, a TLS (HTTP/1.1) and a TLS + HTTP/2 upstream
					fmt.Fprintf(w, "fail %s %s\n", Pick(r, []string{"agent", "agent-tls"}), Pick(r, failAgent))
				default:
					fmt.Fprintf(w, "fail agent-h2 %s\n", Pick(r, failAgentH2))
				}
			}
			continue
		}
		fmt.Fprintln(w, "setup 30000")
		k := 4 + r.Intn(8)
		for i := 0; i < k; i++ {
			genReq(r, tier, w)
		}
	}
}

func hasName(hs []hdr, name string) bool {
	for _, h := range hs {
		if strings.EqualFold(h.k, name) {
			return true
		}
	}
	return false
}
