// Package http is the correspondence engine for C08: REAL server/proxy.Server nodes in front
// of a raw recording upstream.
//
//	client (raw HTTP/1.1 over TCP)  ->  node B (proxy.Server, LoadBalancedManager with a local
//	                                    upstream whose Dial() connects to the recorder)       [path local]
//	client -> node A (proxy.Server, cluster.State row "B serves the endpoint") -> node B -> recorder  [path fwd]
//
// The client writes the request bytes itself (duplicate and odd-case headers, Host variants,
// chunked uploads) and the recorder answers with bytes it controls (status, headers, framing),
// so both ends of the proxy are ground truth.  Output lines are the canonical projection of
// what the upstream received and of what the client received; the model predicts them from the
// request by the end-to-end preservation rule.  ORACLE FAIL C08 lines are computed here,
// directly on the recorded bytes.
package http

import (
	"bufio"
	"bytes"
	"context"
	"crypto/sha256"
	"crypto/tls"
	"encoding/json"
	"errors"
	"fmt"
	"io"
	"math/rand"
	"net"
	nethttp "net/http"
	"net/http/httptest"
	"net/textproto"
	"sort"
	"strconv"
	"strings"
	"sync"
	"time"

	agentconfig "github.com/andydunstall/piko/agent/config"
	"github.com/andydunstall/piko/agent/reverseproxy"
	"github.com/andydunstall/piko/pkg/log"
	"github.com/andydunstall/piko/server/cluster"
	"github.com/andydunstall/piko/server/config"
	"github.com/andydunstall/piko/server/proxy"
	"github.com/andydunstall/piko/server/upstream"

	. "verifharness/core"
)

// ---------------------------------------------------------------- recorder (raw upstream)

type behaviour struct {
	kind    string // normal | closebefore | closemid | slow
	delay   time.Duration
	status  int
	mode    string // cl | chunked | close | none
	body    []byte
	headers [][2]string
	seed    int64
}

type record struct {
	method, uri, host string
	header            nethttp.Header
	body              []byte
	err               error
}

type recorder struct {
	ln   net.Listener
	mu   sync.Mutex
	next behaviour
	recs []record
	wg   sync.WaitGroup
}

func newRecorder() *recorder {
	ln, err := ListenRetry("tcp", "127.0.0.1:0")
	if err != nil {
		panic(err)
	}
	r := &recorder{ln: ln}
	go func() {
		for {
			c, err := ln.Accept()
			if err != nil {
				return
			}
			r.wg.Add(1)
			go func() {
				defer r.wg.Done()
				r.serve(c)
			}()
		}
	}()
	return r
}

func (r *recorder) set(b behaviour) {
	r.mu.Lock()
	r.next = b
	r.recs = nil
	r.mu.Unlock()
}

func (r *recorder) taken() []record {
	r.mu.Lock()
	defer r.mu.Unlock()
	return append([]record(nil), r.recs...)
}

func statusText(code int) string {
	if t := nethttp.StatusText(code); t != "" {
		return t
	}
	return "Status"
}

func (r *recorder) serve(c net.Conn) {
	defer c.Close()
	_ = c.SetDeadline(time.Now().Add(30 * time.Second))
	r.mu.Lock()
	b := r.next
	r.mu.Unlock()
	if b.kind == "closebefore" {
		// read the request header, then close without a byte of response
		br := bufio.NewReader(c)
		_, _ = nethttp.ReadRequest(br)
		r.mu.Lock()
		r.recs = append(r.recs, record{err: errors.New("closed-before")})
		r.mu.Unlock()
		return
	}
	br := bufio.NewReader(c)
	req, err := nethttp.ReadRequest(br)
	if err != nil {
		r.mu.Lock()
		r.recs = append(r.recs, record{err: err})
		r.mu.Unlock()
		return
	}
	body, berr := io.ReadAll(req.Body)
	rec := record{method: req.Method, uri: req.RequestURI, host: req.Host, header: req.Header.Clone(), body: body, err: berr}
	r.mu.Lock()
	r.recs = append(r.recs, rec)
	r.mu.Unlock()
	if b.delay > 0 {
		time.Sleep(b.delay)
	}
	var w bytes.Buffer
	fmt.Fprintf(&w, "HTTP/1.1 %d %s\r\n", b.status, statusText(b.status))
	for _, h := range b.headers {
		fmt.Fprintf(&w, "%s: %s\r\n", h[0], h[1])
	}
	noBody := req.Method == "HEAD" || b.status == 204 || b.status == 304 || b.mode == "none"
	switch {
	case b.mode == "cl" || (noBody && b.mode != "none" && b.mode != "chunked" && b.mode != "close"):
		fmt.Fprintf(&w, "Content-Length: %d\r\n", len(b.body))
	case b.mode == "chunked" && !noBody:
		w.WriteString("Transfer-Encoding: chunked\r\n")
	}
	w.WriteString("Connection: close\r\n\r\n")
	if b.kind == "closemid" {
		// headers and half of the body, then the connection dies
		half := b.body[:len(b.body)/2]
		if b.mode == "chunked" {
			fmt.Fprintf(&w, "%x\r\n", len(half))
			w.Write(half)
			w.WriteString("\r\n")
		} else {
			w.Write(half)
		}
		_, _ = c.Write(w.Bytes())
		return
	}
	if !noBody {
		if b.mode == "chunked" {
			rr := rand.New(rand.NewSource(b.seed))
			rest := b.body
			for len(rest) > 0 {
				k := 1 + rr.Intn(8192)
				if k > len(rest) {
					k = len(rest)
				}
				fmt.Fprintf(&w, "%x\r\n", k)
				w.Write(rest[:k])
				w.WriteString("\r\n")
				rest = rest[k:]
			}
			w.WriteString("0\r\n\r\n")
		} else {
			w.Write(b.body)
		}
	}
	_, _ = c.Write(w.Bytes())
	if tc, ok := c.(*net.TCPConn); ok {
		_ = tc.CloseWrite()
		_, _ = io.Copy(io.Discard, c)
	}
}

// ---------------------------------------------------------------- proxy stack

type fakeUp struct {
	ep   string
	dial func() (net.Conn, error)
}

func (u *fakeUp) EndpointID() string      { return u.ep }
func (u *fakeUp) Dial() (net.Conn, error) { return u.dial() }
func (u *fakeUp) Forward() bool           { return false }

type pnode struct {
	srv  *proxy.Server
	addr string
}

type stack struct {
	timeout time.Duration
	rec     *recorder
	tlsLn   net.Listener
	a, b    *pnode
	agent   string // address of an agent/reverseproxy.Server in front of the recorder
	// the same agent server in front of the recorder behind TLS (HTTP/1.1) and in front of an
	// HTTPS upstream that negotiates HTTP/2 (the agent's transport sets ForceAttemptHTTP2)
	agentTLS, agentH2 string
	h2up              *httptest.Server
}

const (
	epOK      = "e-ok"
	epDialErr = "e-dialerr"
	epNone    = "e-none"
	epNoneB   = "e-none-b"
	epDead    = "e-dead"
)

func startNode(mgr upstream.Manager, ln net.Listener, timeout time.Duration) *pnode {
	conf := config.Default().Proxy
	conf.Timeout = timeout
	// access log ON with header filters (legal, non-default): what is logged must not influence what
	// is proxied.  Block lists on the failure-matrix stack, allow lists (which omit piko's own
	// headers) on the transparency stack.
	conf.AccessLog.Disable = false
	conf.AccessLog.Level = "debug"
	if timeout < 5*time.Second {
		conf.AccessLog.RequestHeaders.BlockList = []string{"authorization", "cookie", "accept", "x-piko-endpoint", "x-custom_header"}
		conf.AccessLog.ResponseHeaders.BlockList = []string{"content-type", "set-cookie"}
	} else {
		conf.AccessLog.RequestHeaders.AllowList = []string{"user-agent"}
		conf.AccessLog.ResponseHeaders.AllowList = []string{"x-none"}
	}
	srv := proxy.NewServer(mgr, conf, nil, nil, nil, log.NewNopLogger())
	go func() { _ = srv.Serve(ln) }()
	return &pnode{srv: srv, addr: ln.Addr().String()}
}

func newStack(timeout time.Duration) *stack {
	s := &stack{timeout: timeout, rec: newRecorder()}
	lnA, err := ListenRetry("tcp", "127.0.0.1:0")
	if err != nil {
		panic(err)
	}
	lnB, err := ListenRetry("tcp", "127.0.0.1:0")
	if err != nil {
		panic(err)
	}
	// the dead node: a port nothing listens on.  Not an ephemeral port that was just closed - a
	// parallel harness process could be handed the same port for one of its proxy nodes.
	deadAddr := "127.0.0.1:1"

	csB := cluster.NewState(&cluster.Node{ID: "node-b", ProxyAddr: lnB.Addr().String(), AdminAddr: "127.0.0.1:1"}, log.NewNopLogger())
	mgrB := upstream.NewLoadBalancedManager(csB, nil)
	recAddr := s.rec.ln.Addr().String()
	mgrB.AddConn(&fakeUp{ep: epOK, dial: func() (net.Conn, error) { return net.Dial("tcp", recAddr) }})
	mgrB.AddConn(&fakeUp{ep: epDialErr, dial: func() (net.Conn, error) { return nil, errors.New("dial refused (harness)") }})
	s.b = startNode(mgrB, lnB, timeout)

	csA := cluster.NewState(&cluster.Node{ID: "node-a", ProxyAddr: lnA.Addr().String(), AdminAddr: "127.0.0.1:1"}, log.NewNopLogger())
	csA.AddNode(&cluster.Node{ID: "node-b", Status: cluster.NodeStatusActive, ProxyAddr: lnB.Addr().String(), AdminAddr: "127.0.0.1:1",
		Endpoints: map[string]int{epOK: 1, epDialErr: 1, epNoneB: 1}})
	csA.AddNode(&cluster.Node{ID: "node-d", Status: cluster.NodeStatusActive, ProxyAddr: deadAddr, AdminAddr: "127.0.0.1:1",
		Endpoints: map[string]int{epDead: 1}})
	mgrA := upstream.NewLoadBalancedManager(csA, nil)
	s.a = startNode(mgrA, lnA, timeout)

	// the agent's HTTP reverse proxy (same timeout / error handler / gin wrapping code)
	lnG, err := ListenRetry("tcp", "127.0.0.1:0")
	if err != nil {
		panic(err)
	}
	aconf := agentconfig.ListenerConfig{EndpointID: "agent", Addr: "http://" + recAddr, Timeout: timeout}
	aconf.AccessLog.Disable = false
	aconf.AccessLog.Level = "info"
	aconf.AccessLog.RequestHeaders.AllowList = []string{"user-agent"}
	aconf.AccessLog.ResponseHeaders.BlockList = []string{"content-type"}
	asrv := reverseproxy.NewServer(aconf, reverseproxy.NewMetrics("verif"), log.NewNopLogger())
	go func() { _ = asrv.Serve(lnG) }()
	s.agent = lnG.Addr().String()

	startAgent := func(addr string) string {
		ln, err := ListenRetry("tcp", "127.0.0.1:0")
		if err != nil {
			panic(err)
		}
		c := agentconfig.ListenerConfig{EndpointID: "agent", Addr: addr, Timeout: timeout}
		c.AccessLog.Disable = false
		c.AccessLog.Level = "info"
		c.AccessLog.RequestHeaders.BlockList = []string{"authorization", "cookie", "accept"}
		c.AccessLog.ResponseHeaders.AllowList = []string{"x-none"}
		c.TLS.InsecureSkipVerify = true
		srv := reverseproxy.NewServer(c, reverseproxy.NewMetrics("verif"), log.NewNopLogger())
		go func() { _ = srv.Serve(ln) }()
		return ln.Addr().String()
	}
	// TLS, HTTP/1.1 only: the raw recorder behind a TLS listener
	tlsLn, err := ListenRetry("tcp", "127.0.0.1:0")
	if err != nil {
		panic(err)
	}
	cert := harnessCert()
	go func() {
		for {
			c, err := tlsLn.Accept()
			if err != nil {
				return
			}
			go s.rec.serve(tls.Server(c, &tls.Config{Certificates: []tls.Certificate{cert}, NextProtos: []string{"http/1.1"}}))
		}
	}()
	s.tlsLn = tlsLn
	s.agentTLS = startAgent("https://" + tlsLn.Addr().String())
	// TLS + HTTP/2: a net/http server playing the recorder's current behaviour
	s.h2up = httptest.NewUnstartedServer(nethttp.HandlerFunc(s.rec.serveH2))
	s.h2up.EnableHTTP2 = true
	s.h2up.StartTLS()
	s.agentH2 = startAgent(s.h2up.URL)
	return s
}

var (
	certOnce sync.Once
	certVal  tls.Certificate
)

// harnessCert: the self-signed certificate httptest ships (the agents skip verification).
func harnessCert() tls.Certificate {
	certOnce.Do(func() {
		ts := httptest.NewUnstartedServer(nil)
		ts.StartTLS()
		certVal = ts.TLS.Certificates[0]
		ts.Close()
	})
	return certVal
}

// serveH2 plays the behaviour set for the next request as an HTTP/2 (net/http) handler.
func (r *recorder) serveH2(w nethttp.ResponseWriter, req *nethttp.Request) {
	r.mu.Lock()
	b := r.next
	r.mu.Unlock()
	body, berr := io.ReadAll(req.Body)
	rec := record{method: req.Method, uri: req.RequestURI, host: req.Host, header: req.Header.Clone(), body: body, err: berr}
	rec.header.Set("X-Verif-Proto", req.Proto)
	r.mu.Lock()
	r.recs = append(r.recs, rec)
	r.mu.Unlock()
	if b.kind == "closebefore" {
		panic(nethttp.ErrAbortHandler) // resets the stream before any response
	}
	if b.delay > 0 {
		select {
		case <-time.After(b.delay):
		case <-req.Context().Done():
			return
		}
	}
	for _, h := range b.headers {
		w.Header().Add(h[0], h[1])
	}
	w.WriteHeader(b.status)
	if b.kind == "closemid" {
		_, _ = w.Write(b.body[:len(b.body)/2])
		if f, ok := w.(nethttp.Flusher); ok {
			f.Flush()
		}
		panic(nethttp.ErrAbortHandler)
	}
	_, _ = w.Write(b.body)
}

func (s *stack) close() {
	ctx, cancel := context.WithTimeout(context.Background(), time.Second)
	defer cancel()
	_ = s.a.srv.Shutdown(ctx)
	_ = s.b.srv.Shutdown(ctx)
	s.rec.ln.Close()
	if s.tlsLn != nil {
		s.tlsLn.Close()
	}
	if s.h2up != nil {
		s.h2up.Close()
	}
}

// ---------------------------------------------------------------- engine

type httpEngine struct {
	stacks map[int]*stack
	cur    *stack
}

// New returns the engine.
func New() Engine { return &httpEngine{stacks: map[int]*stack{}} }

func (e *httpEngine) Reset() { e.cur = nil }

func bodyOf(seed int64, n int) []byte {
	b := make([]byte, n)
	x := uint32(seed)*2654435761 + 12345
	for i := range b {
		x = x*1664525 + 1013904223
		b[i] = byte(x >> 24)
	}
	return b
}

type clientResp struct {
	status int
	header nethttp.Header
	body   []byte
	berr   error
	err    error
	wall   time.Duration
}

// do sends raw request bytes to addr and parses the response.
func do(addr string, method string, raw []byte, limit time.Duration) clientResp {
	t0 := time.Now()
	c, err := net.Dial("tcp", addr)
	if err != nil {
		return clientResp{err: err}
	}
	defer c.Close()
	_ = c.SetDeadline(time.Now().Add(limit))
	go func() { _, _ = c.Write(raw) }()
	resp, err := nethttp.ReadResponse(bufio.NewReader(c), &nethttp.Request{Method: method})
	if err != nil {
		return clientResp{err: err, wall: time.Since(t0)}
	}
	body, berr := io.ReadAll(resp.Body)
	return clientResp{status: resp.StatusCode, header: resp.Header, body: body, berr: berr, wall: time.Since(t0)}
}

var hopNames = map[string]bool{"Connection": true, "Proxy-Connection": true, "Keep-Alive": true, "Proxy-Authenticate": true,
	"Proxy-Authorization": true, "Te": true, "Trailer": true, "Transfer-Encoding": true, "Upgrade": true}

func showHeaders(h nethttp.Header, drop func(name, value string) bool) string {
	var xs []string
	for k, vs := range h {
		for _, v := range vs {
			if drop(k, v) {
				continue
			}
			xs = append(xs, Hx(k)+"="+Hx(v))
		}
	}
	sort.Strings(xs)
	return "[" + strings.Join(xs, ",") + "]"
}

type kv struct{ k, v string }

func parseKVs(ws []string) []kv {
	var out []kv
	for _, w := range ws {
		p := strings.SplitN(w, "=", 2)
		out = append(out, kv{Unhx(p[0]), Unhx(p[1])})
	}
	return out
}

func (e *httpEngine) addr(path string) string {
	switch path {
	case "fwd":
		return e.cur.a.addr
	case "agent":
		return e.cur.agent
	case "agent-tls":
		return e.cur.agentTLS
	case "agent-h2":
		return e.cur.agentH2
	}
	return e.cur.b.addr
}

// expectedVisible is the oracle's own statement of the end-to-end rule (independent of the
// Lean model): the client's headers, canonical names, minus hop-by-hop names, minus the names
// listed in Connection (except piko's own names, which piko protects), minus the names the
// proxy chain owns.
func expectedVisible(hs []kv, protectPiko bool) []string {
	conn := map[string]bool{}
	for _, h := range hs {
		if textproto.CanonicalMIMEHeaderKey(h.k) == "Connection" {
			for _, t := range strings.Split(h.v, ",") {
				t = strings.TrimSpace(t)
				lt := strings.ToLower(t)
				if t != "" && !(protectPiko && (lt == "x-piko-forward" || lt == "x-piko-endpoint")) {
					conn[textproto.CanonicalMIMEHeaderKey(t)] = true
				}
			}
		}
	}
	var xs []string
	for _, h := range hs {
		k := textproto.CanonicalMIMEHeaderKey(h.k)
		if hopNames[k] || conn[k] || k == "X-Forwarded-For" || k == "Content-Length" || k == "X-Piko-Forward" {
			continue
		}
		xs = append(xs, Hx(k)+"="+Hx(h.v))
	}
	sort.Strings(xs)
	return xs
}

func (e *httpEngine) Step(ws []string, o *Out) string {
	switch ws[0] {
	case "setup":
		ms := Atoi(ws[1])
		st, ok := e.stacks[ms]
		if !ok {
			st = newStack(time.Duration(ms) * time.Millisecond)
			e.stacks[ms] = st
		}
		e.cur = st
		return "ok"
	case "req":
		return e.req(ws, o)
	case "fail":
		return e.fail(ws, o)
	}
	return "bad-op"
}

// req <path> <method> <target> <host> <nh> kv* <bmode> <blen> <bseed> <status> <rmode> <rlen> <rseed> <nrh> kv*
func (e *httpEngine) req(ws []string, o *Out) string {
	if e.cur == nil {
		return "bad-op"
	}
	path, method, target, host := ws[1], ws[2], Unhx(ws[3]), Unhx(ws[4])
	i := 5
	nh := Atoi(ws[i])
	i++
	hs := parseKVs(ws[i : i+nh])
	i += nh
	bmode, blen, bseed := ws[i], Atoi(ws[i+1]), int64(Atoi(ws[i+2]))
	i += 3
	status, rmode, rlen, rseed := Atoi(ws[i]), ws[i+1], Atoi(ws[i+2]), int64(Atoi(ws[i+3]))
	i += 4
	nrh := Atoi(ws[i])
	i++
	rhs := parseKVs(ws[i : i+nrh])

	body := bodyOf(bseed, blen)
	rbody := bodyOf(rseed, rlen)
	var rh [][2]string
	for _, h := range rhs {
		rh = append(rh, [2]string{h.k, h.v})
	}
	e.cur.rec.set(behaviour{kind: "normal", status: status, mode: rmode, body: rbody, headers: rh, seed: rseed})

	var w bytes.Buffer
	fmt.Fprintf(&w, "%s %s HTTP/1.1\r\nHost: %s\r\n", method, target, host)
	for _, h := range hs {
		fmt.Fprintf(&w, "%s: %s\r\n", h.k, h.v)
	}
	switch bmode {
	case "cl":
		fmt.Fprintf(&w, "Content-Length: %d\r\n\r\n", len(body))
		w.Write(body)
	case "chunked":
		w.WriteString("Transfer-Encoding: chunked\r\n\r\n")
		rr := rand.New(rand.NewSource(bseed))
		rest := body
		for len(rest) > 0 {
			k := 1 + rr.Intn(16384)
			if k > len(rest) {
				k = len(rest)
			}
			fmt.Fprintf(&w, "%x\r\n", k)
			w.Write(rest[:k])
			w.WriteString("\r\n")
			rest = rest[k:]
		}
		w.WriteString("0\r\n\r\n")
	default:
		w.WriteString("\r\n")
		body = nil
	}
	wantBody := rbody
	if method == "HEAD" || status == 204 || status == 304 || rmode == "none" {
		wantBody = nil
	}
	var resp clientResp
	var recs []record
	for attempt := 0; ; attempt++ {
		resp = do(e.addr(path), method, w.Bytes(), 30*time.Second)
		recs = e.cur.rec.taken()
		// net/http race (not piko's code): for a Content-Length request body the Transport probes
		// the inbound body once more after the last byte; when the upstream has already answered
		// and the proxy's server has closed the inbound body, that probe fails, the Transport
		// closes the upstream connection under the response body being copied and ReverseProxy
		// aborts the client connection (seen under CPU load).  An aborted attempt is retried so
		// that the comparison stays deterministic; a well-terminated short body is never
		// acceptable (fix 6abbcc4) and is reported.
		short := resp.err == nil && resp.berr == nil && len(resp.body) < len(wantBody) && bytes.HasPrefix(wantBody, resp.body)
		if short {
			o.Fail("C08", "truncated-as-complete", fmt.Sprintf("%s: the client received a well-terminated %d with %d of the %d body bytes the upstream sent", path, resp.status, len(resp.body), len(wantBody)))
			break
		}
		aborted := resp.err != nil || resp.berr != nil
		if !aborted || attempt >= 3 || bmode != "cl" {
			break
		}
		o.Count("lib:transport-closed-upstream-early")
		e.cur.rec.set(behaviour{kind: "normal", status: status, mode: rmode, body: rbody, headers: rh, seed: rseed})
	}
	o.Count("oracle:C08:req")
	o.Count("path:" + path)
	o.Count("method:" + method)
	o.Count("bmode:" + bmode)
	o.Count("rmode:" + rmode)
	o.Count("status:" + strconv.Itoa(status))

	// ---- upstream side
	up := "up none"
	if len(recs) > 1 {
		o.Fail("C08", "e2e-duplicated", fmt.Sprintf("the upstream received %d requests for one client request", len(recs)))
	}
	clientSentAE := false
	for _, h := range hs {
		if textproto.CanonicalMIMEHeaderKey(h.k) == "Accept-Encoding" {
			clientSentAE = true
		}
	}
	if len(recs) >= 1 && recs[0].err == nil {
		r := recs[0]
		fwd := strings.Join(r.header.Values("X-Piko-Forward"), "|")
		gotH := showHeaders(r.header, func(k, v string) bool {
			if hopNames[k] || k == "X-Forwarded-For" || k == "Content-Length" || k == "X-Piko-Forward" {
				return true
			}
			if k == "Accept-Encoding" && v == "gzip" && !clientSentAE {
				o.Count("lib:accept-encoding-added")
				return true
			}
			return false
		})
		bodyOK := "ok"
		if !bytes.Equal(r.body, body) {
			bodyOK = fmt.Sprintf("bad:%x", sha256.Sum256(r.body))[:20]
		}
		up = "up m=" + r.method + " uri=" + Hx(r.uri) + " host=" + Hx(r.host) + " fwd=" + Hx(fwd) + " h=" + gotH +
			" body=" + strconv.Itoa(len(r.body)) + ":" + bodyOK
		// oracle, straight from the property statement
		if r.method != method {
			o.Fail("C08", "e2e-method", fmt.Sprintf("sent %q upstream saw %q", method, r.method))
		}
		if r.uri != target {
			o.Fail("C08", "e2e-uri", fmt.Sprintf("sent %q upstream saw %q", target, r.uri))
		}
		if r.host != host {
			o.Fail("C08", "e2e-host", fmt.Sprintf("sent Host %q upstream saw %q", host, r.host))
		}
		if !bytes.Equal(r.body, body) {
			o.Fail("C08", "e2e-body", fmt.Sprintf("sent %d bytes sha %x upstream saw %d bytes sha %x", len(body), sha256.Sum256(body), len(r.body), sha256.Sum256(r.body)))
		}
		if want := "[" + strings.Join(expectedVisible(hs, path != "agent"), ",") + "]"; want != gotH {
			o.Fail("C08", "e2e-headers", "end-to-end request headers differ: "+diffLists(want, gotH))
		}
		if path != "agent" && fwd != "true" {
			o.Fail("C08", "forward-marker", "x-piko-forward at the upstream = "+strconv.Quote(fwd))
		}
	} else if len(recs) >= 1 {
		up = "up err"
	}

	// ---- client side
	if resp.err != nil {
		o.Fail("C08", "e2e-response", "client got no response: "+resp.err.Error())
		return up + " down err"
	}
	upstreamSent := map[string]bool{}
	for _, h := range rhs {
		upstreamSent[textproto.CanonicalMIMEHeaderKey(h.k)] = true
	}
	gotRH := showHeaders(resp.header, func(k, v string) bool {
		if hopNames[k] || k == "Content-Length" {
			return true
		}
		if k == "Date" && !upstreamSent["Date"] {
			return true
		}
		if k == "Content-Type" && !upstreamSent["Content-Type"] {
			o.Count("lib:content-type-sniffed")
			return true
		}
		return false
	})
	bodyOK := "ok"
	if !bytes.Equal(resp.body, wantBody) || resp.berr != nil {
		bodyOK = fmt.Sprintf("bad:%x", sha256.Sum256(resp.body))[:20]
		o.Fail("C08", "e2e-response-body", fmt.Sprintf("upstream sent %d bytes, client got %d bytes (err %v)", len(wantBody), len(resp.body), resp.berr))
	}
	if len(recs) >= 1 {
		if resp.status != status {
			o.Fail("C08", "e2e-status", fmt.Sprintf("upstream sent %d client got %d", status, resp.status))
		}
		var want []string
		for _, h := range rhs {
			k := textproto.CanonicalMIMEHeaderKey(h.k)
			if hopNames[k] || k == "Content-Length" {
				continue
			}
			want = append(want, Hx(k)+"="+Hx(h.v))
		}
		sort.Strings(want)
		if w := "[" + strings.Join(want, ",") + "]"; w != gotRH {
			clause := "e2e-response-headers"
			if status == 404 && strings.Join(resp.header.Values("Content-Type"), "|") == "text/plain" {
				// gin's NoRoute default answer instead of the upstream's 404 (regression of 694d302)
				clause = "notfound-content-type-rewritten"
			}
			o.Fail("C08", clause, "response headers differ: "+diffLists(w, gotRH))
		}
	}
	return up + " down s=" + strconv.Itoa(resp.status) + " h=" + gotRH + " body=" + strconv.Itoa(len(resp.body)) + ":" + bodyOK
}

// fail <path> <kind>
func (e *httpEngine) fail(ws []string, o *Out) string {
	if e.cur == nil || len(ws) != 3 {
		return "bad-op"
	}
	path, kind := ws[1], ws[2]
	T := e.cur.timeout
	ep := epOK
	hdr := ""
	b := behaviour{kind: "normal", status: 200, mode: "cl", body: []byte("ok")}
	expect := 0
	switch kind {
	case "noendpoint":
		ep = ""
		expect = 400
	case "noupstream":
		ep = epNone
		expect = 502
	case "noupstream-remote":
		ep = epNoneB
		expect = 502
	case "dialerr":
		ep = epDialErr
		expect = 502
	case "deadnode":
		ep = epDead
		expect = 502
	case "closebefore":
		b.kind = "closebefore"
		expect = 502
	case "closemid-cl":
		b.kind, b.body = "closemid", bodyOf(7, 4000)
		expect = 200
	case "closemid-chunked":
		b.kind, b.mode, b.body = "closemid", "chunked", bodyOf(7, 4000)
		expect = 200
	case "slow":
		b.delay = 3 * T
		expect = 504
	case "slow-upgrade":
		b.delay = 2 * T
		hdr = "Connection: Upgrade\r\nUpgrade: websocket\r\n"
		expect = 200
	case "slow-upgrade-case":
		// `r.Header.Get("upgrade") != "websocket"` is an exact comparison
		b.delay = 3 * T
		hdr = "Connection: Upgrade\r\nUpgrade: WebSocket\r\n"
		expect = 504
	case "fast":
		expect = 200
	default:
		return "bad-op"
	}
	if T == 0 && strings.HasPrefix(kind, "slow") {
		return "bad-op"
	}
	if strings.HasPrefix(path, "agent") && (kind == "noendpoint" || kind == "noupstream" || kind == "dialerr") {
		return "bad-op"
	}
	if path == "agent-h2" && (strings.Contains(kind, "upgrade") || kind == "closemid-cl") {
		return "bad-op" // no protocol upgrade over HTTP/2; the net/http upstream chunks by itself
	}
	if path != "fwd" && (kind == "noupstream-remote" || kind == "deadnode") {
		return "bad-op"
	}
	raw := "GET /x HTTP/1.1\r\nHost: 127.0.0.1\r\n" + hdr
	if ep != "" {
		raw += "x-piko-endpoint: " + ep + "\r\n"
	}
	raw += "\r\n"
	var resp clientResp
	for attempt := 0; ; attempt++ {
		e.cur.rec.set(b)
		resp = do(e.addr(path), "GET", []byte(raw), T+8*time.Second)
		// Scheduling noise: on a starved machine the proxy itself may need longer than the 300 ms
		// timeout, and then a 504 is the correct answer even for a fast upstream; likewise the
		// no-hang bound can be missed.  Such an attempt is recognisable by its wall time (a 504
		// that arrives only after the timeout has really elapsed; an answer later than timeout
		// + 2 s) and is repeated; a 504 that arrives before the timeout, or an anomaly that
		// persists over 4 attempts, is reported.
		starved := expect != 504 && resp.status == 504 && resp.wall >= T
		late := resp.wall >= T+2*time.Second
		if !(starved || late) || attempt >= 3 {
			break
		}
		o.Count("timing:retry")
		time.Sleep(time.Duration(50*(attempt+1)) * time.Millisecond)
	}
	o.Count("oracle:C08:fail")
	o.Count("fail:" + kind)
	hang := resp.wall >= T+2*time.Second
	if hang {
		o.Fail("C08", "hang", fmt.Sprintf("%s/%s: no answer within timeout + 2 s (wall %v)", path, kind, resp.wall.Round(time.Millisecond)))
	}
	if strings.HasPrefix(kind, "closemid") {
		// the upstream died after the header, inside the body: the client must observe an
		// aborted response (no response at all, or a body that ends in an error) - or, on the
		// forwarded path when the second node had not flushed a byte before it aborted, the
		// first node's own 502 - never a well-terminated shorter body
		aborted := resp.err != nil || resp.berr != nil
		if !aborted && resp.status == 502 && strings.Contains(string(resp.body), "upstream unreachable") {
			return "st=502 msg=" + Hx("upstream unreachable") + " hang=" + B01(hang)
		}
		if !aborted {
			o.Fail("C08", "truncated-as-complete", fmt.Sprintf("%s/%s: the upstream died after %d of %d body bytes; the client received a well-terminated %d response with %d bytes",
				path, kind, len(b.body)/2, len(b.body), resp.status, len(resp.body)))
		}
		return "aborted=" + B01(aborted) + " hang=" + B01(hang)
	}
	if resp.err != nil {
		o.Fail("C08", "status-"+kind, "no response: "+resp.err.Error())
		return "st=0 hang=" + B01(hang)
	}
	msg := ""
	if strings.HasPrefix(resp.header.Get("Content-Type"), "application/json") {
		var m struct {
			Error string `json:"error"`
		}
		if json.Unmarshal(resp.body, &m) == nil {
			msg = m.Error
		}
	}
	if resp.status != expect {
		o.Fail("C08", "status-"+kind, fmt.Sprintf("%s/%s: expected %d got %d (%s)", path, kind, expect, resp.status, msg))
	}
	if resp.status >= 200 && resp.status < 300 && expect >= 400 {
		o.Fail("C08", "fabricated-success", fmt.Sprintf("%s/%s answered %d", path, kind, resp.status))
	}
	return "st=" + strconv.Itoa(resp.status) + " msg=" + Hx(msg) + " hang=" + B01(hang)
}

// diffLists renders the difference of two printed header lists (multisets) readably.
func diffLists(want, got string) string {
	parse := func(s string) map[string]int {
		m := map[string]int{}
		s = strings.TrimSuffix(strings.TrimPrefix(s, "["), "]")
		if s == "" {
			return m
		}
		for _, x := range strings.Split(s, ",") {
			m[x]++
		}
		return m
	}
	show := func(x string) string {
		p := strings.SplitN(x, "=", 2)
		v := Unhx(p[1])
		if len(v) > 40 {
			v = v[:40] + "..."
		}
		return Unhx(p[0]) + ": " + strconv.Quote(v)
	}
	w, g := parse(want), parse(got)
	var miss, extra []string
	for k, n := range w {
		for i := g[k]; i < n; i++ {
			miss = append(miss, show(k))
		}
	}
	for k, n := range g {
		for i := w[k]; i < n; i++ {
			extra = append(extra, show(k))
		}
	}
	sort.Strings(miss)
	sort.Strings(extra)
	return "sent but not received {" + strings.Join(miss, "; ") + "} received but not sent {" + strings.Join(extra, "; ") + "}"
}
