// Package syncer is the correspondence engine for server/gossip's syncer (C04): a REAL syncer
// (newSyncer) feeding a REAL cluster.State, driven by watcher callbacks; plus (thorough tier,
// ops g.*) real gossip clusterStates whose Watcher is the real syncer, exchanging real
// encoded deltas.
package syncer

import (
	"bufio"
	"fmt"
	"math/rand"
	"sort"
	"strconv"
	"strings"
	"time"

	. "verifharness/core"

	pg "github.com/andydunstall/piko/pkg/gossip"
	"github.com/andydunstall/piko/pkg/log"
	"github.com/andydunstall/piko/server/cluster"
	sg "github.com/andydunstall/piko/server/gossip"
)

const (
	proxyKey = "proxy_addr"
	adminKey = "admin_addr"
	epPrefix = "endpoint:"
)

// foldNode is the fold of the watcher events of one remembered node (C14's WView entry) plus
// the two ghost bits of C04_table_spec: dropped (the leave was announced while not both
// addresses were visible) and bad (a hypothesis of the theorem was violated for this
// incarnation: duplicate join, liveness event after leave, address key changed/deleted).
type foldNode struct {
	kv                          map[string]string
	left, unreach, dropped, bad bool
}

func (f *foldNode) bothAddr() bool { return f.kv[proxyKey] != "" && f.kv[adminKey] != "" }

type engine struct {
	cs   *cluster.State
	sy   *sg.VSyncer
	fold map[string]*foldNode
	g    *gtier
}

// New returns the engine.
func New() Engine { return &engine{} }

func (e *engine) Reset() {
	e.cs, e.sy, e.g = nil, nil, nil
	e.fold = map[string]*foldNode{}
}

func showStatus(s cluster.NodeStatus) string {
	if s == "" {
		return "-"
	}
	return string(s)
}

func showNode(n *cluster.Node) string {
	return Hx(n.ID) + " " + showStatus(n.Status) + " " + Hx(n.ProxyAddr) + " " + Hx(n.AdminAddr) + " " + ShowCounts(n.Endpoints)
}

func showNodes(ns []*cluster.Node) string {
	xs := make([]string, len(ns))
	for i, n := range ns {
		xs[i] = showNode(n)
	}
	return SortedJoin(xs, ";")
}

func (e *engine) show() string {
	return "T(" + showNodes(e.cs.Nodes()) + ") P(" + showNodes(sg.VPendingNodes(e.sy)) + ")"
}

// ---------------------------------------------------------------- fold of the events (Go side)

func (e *engine) foldEvent(kind, id, k, v string) {
	f := e.fold[id]
	if kind == "join" {
		nf := &foldNode{kv: map[string]string{}}
		if f != nil {
			nf.bad = true // duplicate join: not well-formed
		}
		e.fold[id] = nf
		return
	}
	if f == nil {
		return // event of a node that is not remembered: not well-formed; the fold ignores it
	}
	switch kind {
	case "leave":
		if !f.bothAddr() {
			f.dropped = true
		}
		f.left = true
	case "unreach":
		if f.left {
			f.bad = true
		}
		f.unreach = true
	case "reach":
		if f.left {
			f.bad = true
		}
		f.unreach = false
	case "exp":
		delete(e.fold, id)
	case "up":
		if (k == proxyKey || k == adminKey) && f.bothAddr() && f.kv[k] != v {
			f.bad = true // an owner changed an address that was already complete
		}
		f.kv[k] = v
	case "del":
		if k == proxyKey || k == adminKey {
			f.bad = true // owners never delete their addresses
		}
		delete(f.kv, k)
	}
}

func wantStatus(f *foldNode) cluster.NodeStatus {
	switch {
	case f.left:
		return cluster.NodeStatusLeft
	case f.unreach:
		return cluster.NodeStatusUnreachable
	}
	return cluster.NodeStatusActive
}

// checkEndpoints: eps == {id -> n | "endpoint:"+id visible with a value Atoi parses to n};
// a visible key whose value does not parse says nothing about the entry (the syncer returns
// early and keeps whatever it had).
func checkEndpoints(o *Out, where, id string, eps map[string]int, f *foldNode) {
	for k, v := range f.kv {
		if !strings.HasPrefix(k, epPrefix) {
			continue
		}
		ep := strings.TrimPrefix(k, epPrefix)
		n, err := strconv.Atoi(v)
		if err != nil {
			continue
		}
		got, ok := eps[ep]
		if !ok || got != n {
			o.Fail("C04", where+"-endpoint-count", fmt.Sprintf("node=%s ep=%s advertised=%d listed=%d present=%v", Hx(id), Hx(ep), n, got, ok))
		}
	}
	for ep := range eps {
		if _, ok := f.kv[epPrefix+ep]; !ok {
			o.Fail("C04", where+"-withdrawn-endpoint-listed", "node="+Hx(id)+" ep="+Hx(ep))
		}
	}
}

// oracleSpec evaluates C04_table_spec on the real cluster.State (public API) and the real
// pending map after every op.
func (e *engine) oracleSpec(o *Out) {
	o.Count("oracle:C04:spec")
	local := e.cs.LocalID()
	pend := map[string]*cluster.Node{}
	for _, n := range sg.VPendingNodes(e.sy) {
		pend[n.ID] = n
	}
	ids := map[string]bool{}
	for id := range e.fold {
		ids[id] = true
	}
	for id := range pend {
		ids[id] = true
	}
	for _, n := range e.cs.Nodes() {
		ids[n.ID] = true
	}
	if _, ok := pend[local]; ok {
		o.Fail("C04", "local-node-pending", Hx(local))
	}
	for id := range ids {
		if id == local {
			continue
		}
		row, inT := e.cs.Node(id)
		pn, inP := pend[id]
		f := e.fold[id]
		if inT && inP {
			o.Fail("C04", "in-table-and-pending", Hx(id))
		}
		if f == nil {
			if inT || inP {
				failMembership(o, "expired-or-unannounced-node-listed", fmt.Sprintf("node=%s table=%v pending=%v", Hx(id), inT, inP))
			}
			continue
		}
		if f.bad {
			o.Count("spec:skipped-hypothesis-violated")
			continue
		}
		switch {
		case f.dropped:
			o.Count("spec:dropped")
			if inT || inP {
				failMembership(o, "left-while-pending-but-listed", fmt.Sprintf("node=%s table=%v pending=%v", Hx(id), inT, inP))
			}
		case f.bothAddr():
			o.Count("spec:in-table")
			if !inT {
				o.Fail("C04", "complete-node-not-in-table", fmt.Sprintf("node=%s pending=%v", Hx(id), inP))
				continue
			}
			if row.ProxyAddr != f.kv[proxyKey] || row.AdminAddr != f.kv[adminKey] {
				o.Fail("C04", "table-address-differs", fmt.Sprintf("node=%s table=%s,%s advertised=%s,%s", Hx(id), Hx(row.ProxyAddr), Hx(row.AdminAddr), Hx(f.kv[proxyKey]), Hx(f.kv[adminKey])))
			}
			if row.Status != wantStatus(f) {
				failMembership(o, "table-status", fmt.Sprintf("node=%s status=%s left=%v unreachable=%v", Hx(id), row.Status, f.left, f.unreach))
			}
			checkEndpoints(o, "table", id, row.Endpoints, f)
		default:
			o.Count("spec:pending")
			if inT {
				o.Fail("C04", "incomplete-node-in-table", "node="+Hx(id)+" row="+showNode(row))
				continue
			}
			if !inP {
				o.Fail("C04", "incomplete-node-not-pending", Hx(id))
				continue
			}
			if pn.ProxyAddr != f.kv[proxyKey] || pn.AdminAddr != f.kv[adminKey] {
				o.Fail("C04", "pending-address-differs", Hx(id))
			}
			okSt := pn.Status == "" || pn.Status == cluster.NodeStatusActive
			if f.unreach {
				okSt = pn.Status == cluster.NodeStatusUnreachable
			}
			if !okSt || f.left {
				failMembership(o, "pending-status", fmt.Sprintf("node=%s status=%q left=%v unreachable=%v", Hx(id), pn.Status, f.left, f.unreach))
			}
			checkEndpoints(o, "pending", id, pn.Endpoints, f)
		}
	}
}

func (e *engine) candidates(ep string) map[string]bool {
	c := map[string]bool{}
	for _, n := range e.cs.Nodes() {
		if n.ID != e.cs.LocalID() && n.Status == cluster.NodeStatusActive && n.Endpoints[ep] > 0 {
			c[n.ID] = true
		}
	}
	return c
}

func (e *engine) Step(ws []string, o *Out) string {
	if strings.HasPrefix(ws[0], "g.") {
		e.gstep(ws, o)
		return "skip"
	}
	if ws[0] == "init" {
		id, p, a := Unhx(ws[1]), Unhx(ws[2]), Unhx(ws[3])
		e.cs = cluster.NewState(&cluster.Node{ID: id, ProxyAddr: p, AdminAddr: a}, log.NewNopLogger())
		e.sy = sg.VNewSyncer(e.cs, log.NewNopLogger())
		e.fold = map[string]*foldNode{}
		return e.show()
	}
	known := map[string]int{"join": 2, "leave": 2, "reach": 2, "unreach": 2, "exp": 2, "up": 4, "del": 3, "ladd": 2, "lrm": 2, "lookup": 2}
	if n, ok := known[ws[0]]; !ok || n != len(ws) {
		return "bad-op"
	}
	if e.cs == nil {
		return "err no-init"
	}
	switch ws[0] {
	case "ladd":
		e.cs.AddLocalEndpoint(Unhx(ws[1]))
		e.oracleSpec(o)
		return e.show()
	case "lrm":
		e.cs.RemoveLocalEndpoint(Unhx(ws[1]))
		e.oracleSpec(o)
		return e.show()
	case "lookup":
		ep := Unhx(ws[1])
		cands := e.candidates(ep)
		n, ok := e.cs.LookupEndpoint(ep)
		o.Count("oracle:C04:lookup")
		if !ok {
			if len(cands) > 0 {
				o.Fail("C04", "lookup-incomplete", "ep="+Hx(ep)+" although an active remote node advertises it")
			}
			return "lookup none"
		}
		o.Count("lookup:found")
		cur, ok2 := e.cs.Node(n.ID)
		switch {
		case n.ID == e.cs.LocalID():
			o.Fail("C04", "lookup-unsound", "ep="+Hx(ep)+" returned the local node")
		case !ok2:
			o.Fail("C04", "lookup-unsound", "ep="+Hx(ep)+" returned unknown node "+Hx(n.ID))
		case cur.Status != cluster.NodeStatusActive:
			failMembership(o, "lookup-unsound", "ep="+Hx(ep)+" returned node "+Hx(n.ID)+" with status "+string(cur.Status))
		case cur.Endpoints[ep] <= 0:
			o.Fail("C04", "lookup-unsound", fmt.Sprintf("ep=%s returned node %s advertising %d upstreams", Hx(ep), Hx(n.ID), cur.Endpoints[ep]))
		}
		return "lookup " + Hx(n.ID)
	}
	id := Unhx(ws[1])
	localBefore := showNode(e.cs.LocalNode())
	var k, v string
	switch ws[0] {
	case "join":
		e.sy.OnJoin(id)
	case "leave":
		e.sy.OnLeave(id)
	case "reach":
		e.sy.OnReachable(id)
	case "unreach":
		e.sy.OnUnreachable(id)
	case "exp":
		e.sy.OnExpired(id)
	case "up":
		k, v = Unhx(ws[2]), Unhx(ws[3])
		e.sy.OnUpsertKey(id, k, v)
	case "del":
		k = Unhx(ws[2])
		e.sy.OnDeleteKey(id, k)
	}
	e.foldEvent(ws[0], id, k, v)
	if showNode(e.cs.LocalNode()) != localBefore {
		o.Fail("C04", "local-row-changed-by-notification", "event "+strings.Join(ws, " "))
	}
	if ws[0] == "del" && strings.HasPrefix(k, epPrefix) {
		// C04_withdrawn_gone, for any history
		if row, ok := e.cs.Node(id); ok && id != e.cs.LocalID() {
			if _, still := row.Endpoints[strings.TrimPrefix(k, epPrefix)]; still {
				o.Fail("C04", "withdrawn-endpoint-listed", "node="+Hx(id)+" key="+Hx(k))
			}
		}
		o.Count("oracle:C04:withdrawn")
	}
	e.oracleSpec(o)
	return e.show()
}

// ---------------------------------------------------------------- real-gossip tier (ops g.*)

type scriptFD struct{ suspected map[string]bool }

func (f *scriptFD) Report(string) {}
func (f *scriptFD) SuspicionLevel(id string) float64 {
	if f.suspected[id] {
		return 1000
	}
	return 0
}
func (f *scriptFD) Remove(string) {}

// gnode is one complete node: cluster.State + syncer (the gossip Watcher) + gossip clusterState.
type gnode struct {
	id string
	cs *cluster.State
	sy *sg.VSyncer
	st *pg.VState
	fd *scriptFD
}

type gtier struct {
	nodes map[string]*gnode
	order []string
}

const huge = 1 << 30

func deltaItems(d pg.VDelta) int {
	n := 0
	for _, x := range d {
		n += 1 + len(x.Entries)
	}
	return n
}

// encodeDeltaCut runs the real encodeDelta with the smallest maxPacketSize that lets `cut`
// whole items through, then the real decodeDelta: the real truncation loop decides.
func encodeDeltaCut(h pg.VDeltaHeader, d pg.VDelta, cut int, o *Out) pg.VDelta {
	items := func(max int) (pg.VDelta, int) {
		b, err := pg.VEncodeDelta(h, d, max)
		if err != nil {
			return nil, -1
		}
		_, dd, err := pg.VDecodeDelta(b)
		if err != nil {
			return nil, -1
		}
		return dd, deltaItems(dd)
	}
	full, err := pg.VEncodeDelta(h, d, huge)
	if err != nil {
		panic(err)
	}
	if cut >= deltaItems(d) {
		dd, _ := items(huge)
		return dd
	}
	hdr, err := pg.VEncodeDelta(h, nil, huge)
	if err != nil {
		panic(err)
	}
	lo, hi := len(hdr), len(full)
	for lo < hi {
		mid := (lo + hi) / 2
		if _, n := items(mid); n >= cut {
			hi = mid
		} else {
			lo = mid + 1
		}
	}
	dd, _ := items(lo)
	o.Count("g:delta-truncated")
	return dd
}

func sortedDigest(g *gnode) pg.VDigest {
	d := g.st.Digest()
	sort.Slice(d, func(i, j int) bool { return d[i].ID < d[j].ID })
	return d
}

// half: `to` sends its digest to `from`; `from` learns the ids, answers with a (truncated)
// delta which `to` applies.
func (e *engine) half(from, to *gnode, cut int, full bool, o *Out) {
	d := sortedDigest(to)
	from.st.ApplyDigest(d)
	delta := from.st.Delta(d, full)
	if full {
		sort.SliceStable(delta, func(i, j int) bool { return delta[i].ID < delta[j].ID })
	}
	for _, de := range delta {
		if de.ID != from.id {
			o.Count("g:relayed-entry")
		}
	}
	dd := encodeDeltaCut(pg.VDeltaHeader{NodeID: from.id, Addr: "a" + from.id}, delta, cut, o)
	to.st.ApplyDelta(dd)
}

func (e *engine) gstep(ws []string, o *Out) {
	if ws[0] == "g.init" {
		e.g = &gtier{nodes: map[string]*gnode{}}
		for _, t := range ws[1:] {
			id := Unhx(t)
			n := &gnode{id: id, fd: &scriptFD{suspected: map[string]bool{}}}
			n.cs = cluster.NewState(&cluster.Node{ID: id, ProxyAddr: "p-" + id, AdminAddr: "m-" + id}, log.NewNopLogger())
			n.sy = sg.VNewSyncer(n.cs, log.NewNopLogger())
			n.st = pg.VNewClusterState(id, "a"+id, n.fd, n.sy)
			n.sy.Sync(n.st)
			e.g.nodes[id] = n
			e.g.order = append(e.g.order, id)
		}
		return
	}
	if e.g == nil {
		return
	}
	node := func(i int) *gnode {
		if i >= len(ws) {
			return nil
		}
		return e.g.nodes[Unhx(ws[i])]
	}
	a := node(1)
	if a == nil {
		return
	}
	switch ws[0] {
	case "g.add":
		a.cs.AddLocalEndpoint(Unhx(ws[2]))
	case "g.rm":
		a.cs.RemoveLocalEndpoint(Unhx(ws[2]))
	case "g.compact":
		a.st.CompactLocal(Atoi(ws[2]))
	case "g.leave":
		a.st.LeaveLocal()
	case "g.push": // the stream half of join/leave: b applies a's complete local state
		if b := node(2); b != nil && b != a {
			b.st.ApplyDelta(a.st.LocalDelta())
		}
	case "g.round": // a digest request from a to b and the exchange that follows
		if b := node(2); b != nil && b != a {
			e.half(b, a, Atoi(ws[3]), false, o)
			e.half(a, b, Atoi(ws[4]), false, o)
		}
	case "g.join": // a joins through b: b gets a's state, a gets everything b knows (full digest)
		if b := node(2); b != nil && b != a {
			b.st.ApplyDelta(a.st.LocalDelta())
			e.half(b, a, Atoi(ws[3]), true, o)
		}
	case "g.live":
		a.fd.suspected = map[string]bool{}
		if ws[2] != "-" {
			for _, x := range strings.Split(ws[2], ",") {
				a.fd.suspected[Unhx(x)] = true
			}
		}
		a.st.UpdateLiveness(float64(pg.VSuspicionThreshold))
	case "g.expire":
		a.st.RemoveExpiredAt(time.Now().Add(time.Duration(Atoi(ws[2])) * time.Second))
	}
	e.oracleMirror(o)
}

// oracleMirror: C04 itself on the real stack — whenever an observer's gossip version of an
// owner equals the owner's own version, the observer's routing-table row of the owner equals
// the owner's LocalNode() (addresses, endpoints with counts), and the row's status follows
// the gossip flags.  Lookups are sound on every table.
func (e *engine) oracleMirror(o *Out) {
	for _, oid := range e.g.order {
		owner := e.g.nodes[oid]
		O := owner.st.LocalNode()
		L := owner.cs.LocalNode()
		for _, bid := range e.g.order {
			if bid == oid {
				continue
			}
			obs := e.g.nodes[bid]
			V, ok := obs.st.Node(oid)
			row, inT := obs.cs.Node(oid)
			if !ok {
				if inT {
					failMembership(o, "mirror-row-of-forgotten-node", "observer="+Hx(bid)+" owner="+Hx(oid))
				}
				continue
			}
			if inT {
				want := cluster.NodeStatusActive
				if V.Left {
					want = cluster.NodeStatusLeft
				} else if V.Unreachable {
					want = cluster.NodeStatusUnreachable
				}
				if row.Status != want {
					failMembership(o, "mirror-status", fmt.Sprintf("observer=%s owner=%s status=%s left=%v unreachable=%v", Hx(bid), Hx(oid), row.Status, V.Left, V.Unreachable))
				}
			}
			if V.Version != O.Version {
				o.Count("g:behind")
				continue
			}
			o.Count("g:caught-up")
			if !inT {
				o.Fail("C04", "mirror-caught-up-but-no-row", "observer="+Hx(bid)+" owner="+Hx(oid))
				continue
			}
			if row.ProxyAddr != L.ProxyAddr || row.AdminAddr != L.AdminAddr {
				o.Fail("C04", "mirror-address", "observer="+Hx(bid)+" owner="+Hx(oid))
			}
			if ShowCounts(row.Endpoints) != ShowCounts(L.Endpoints) {
				o.Fail("C04", "mirror-endpoints", fmt.Sprintf("observer=%s owner=%s row=%s owner-local=%s", Hx(bid), Hx(oid), ShowCounts(row.Endpoints), ShowCounts(L.Endpoints)))
			}
		}
	}
	// lookup soundness on every node's table for the small endpoint alphabet
	for _, bid := range e.g.order {
		obs := e.g.nodes[bid]
		for _, ep := range gEps {
			n, ok := obs.cs.LookupEndpoint(ep)
			if !ok {
				continue
			}
			cur, ok2 := obs.cs.Node(n.ID)
			if n.ID == bid || !ok2 || cur.Status != cluster.NodeStatusActive || cur.Endpoints[ep] <= 0 {
				failMembership(o, "lookup-unsound", "observer="+Hx(bid)+" ep="+Hx(ep)+" node="+Hx(n.ID))
			}
		}
	}
	o.Count("oracle:C04:mirror")
}

// ---------------------------------------------------------------- generators

var gEps = []string{"e", "ep", "é✓"}
var counts = []string{"1", "2", "12", "0", "0", "0", "0", "-1", "abc", "", "+4", "007", "9223372036854775808", "1_0", " 1"}
var epIDs = []string{"e", "ep", "é✓", "", "a b"}
var addrs = []string{"10.0.0.1:8000", "10.0.0.2:8000", "h:1", "x"}

type owner struct {
	id            string
	present       bool
	proxy, admin  string
	sentP, sentA  bool
	left, unreach bool
	keys          map[string]bool
}

func (e *engine) Gen(r *rand.Rand, n int, tier string, w *bufio.Writer) {
	for c := 0; c < n; c++ {
		switch {
		case tier == "thorough" && c%5 == 4:
			genGossip(r, c, w)
		case c%4 == 3:
			genIll(r, c, tier, w)
		default:
			genWF(r, c, tier, w)
		}
	}
}

func genLookups(r *rand.Rand, w *bufio.Writer) {
	switch x := r.Intn(10); {
	case x < 6:
		fmt.Fprintf(w, "lookup %s\n", Hx(Pick(r, epIDs)))
	case x < 8:
		fmt.Fprintf(w, "ladd %s\n", Hx(Pick(r, epIDs)))
	default:
		fmt.Fprintf(w, "lrm %s\n", Hx(Pick(r, epIDs)))
	}
}

// genWF: stream (i) — event sequences a gossip layer can emit for simulated owners that
// publish their two addresses once: address keys first or late, endpoint adds / overwrites /
// removals (tombstone and compaction-drop are the same `del` notification; deletes of keys
// never seen live occur too), re-announced (re-versioned) addresses, leave, unreachable /
// reachable flapping, expiry then re-join, late first contact, hostile counts; notifications
// naming the local id.
func genWF(r *rand.Rand, c int, tier string, w *bufio.Writer) {
	fmt.Fprintf(w, "case syncer-wf-%d\n", c)
	local := "n0"
	fmt.Fprintf(w, "init %s %s %s\n", Hx(local), Hx("10.0.0.9:8000"), Hx("10.0.0.9:8002"))
	nn := 1 + r.Intn(4)
	var os []*owner
	for i := 1; i <= nn; i++ {
		os = append(os, &owner{id: fmt.Sprintf("n%d", i)})
	}
	nops := 15 + r.Intn(60)
	if tier == "thorough" {
		nops = 30 + r.Intn(200)
	}
	valid := r.Intn(3) > 0 // most cases use parsable positive counts only
	count := func() string {
		if valid || r.Intn(2) > 0 {
			return strconv.Itoa(1 + r.Intn(3))
		}
		return Pick(r, counts)
	}
	for i := 0; i < nops; i++ {
		if r.Intn(5) == 0 {
			genLookups(r, w)
			continue
		}
		if r.Intn(25) == 0 { // notifications naming the local id are ignored
			switch r.Intn(4) {
			case 0:
				fmt.Fprintf(w, "join %s\n", Hx(local))
			case 1:
				fmt.Fprintf(w, "up %s %s %s\n", Hx(local), Hx(epPrefix+Pick(r, epIDs)), Hx("3"))
			case 2:
				fmt.Fprintf(w, "leave %s\n", Hx(local))
			default:
				fmt.Fprintf(w, "exp %s\n", Hx(local))
			}
			continue
		}
		ow := Pick(r, os)
		id := Hx(ow.id)
		if !ow.present {
			*ow = owner{id: ow.id, present: true, keys: map[string]bool{},
				proxy: Pick(r, addrs), admin: Pick(r, addrs)}
			if r.Intn(12) == 0 {
				ow.proxy = "" // an owner without a proxy address is never promoted
			}
			fmt.Fprintf(w, "join %s\n", id)
			if r.Intn(3) > 0 { // the usual delta: both addresses straight away
				fmt.Fprintf(w, "up %s %s %s\n", id, Hx(proxyKey), Hx(ow.proxy))
				fmt.Fprintf(w, "up %s %s %s\n", id, Hx(adminKey), Hx(ow.admin))
				ow.sentP, ow.sentA = true, true
			}
			continue
		}
		x := r.Intn(100)
		switch {
		case x < 14 && !ow.sentP:
			fmt.Fprintf(w, "up %s %s %s\n", id, Hx(proxyKey), Hx(ow.proxy))
			ow.sentP = true
		case x < 28 && !ow.sentA:
			fmt.Fprintf(w, "up %s %s %s\n", id, Hx(adminKey), Hx(ow.admin))
			ow.sentA = true
		case x < 32: // re-announcement after the owner compacted (same value, new version)
			if ow.sentP && r.Intn(2) == 0 {
				fmt.Fprintf(w, "up %s %s %s\n", id, Hx(proxyKey), Hx(ow.proxy))
			} else if ow.sentA {
				fmt.Fprintf(w, "up %s %s %s\n", id, Hx(adminKey), Hx(ow.admin))
			}
		case x < 58:
			ep := Pick(r, epIDs)
			ow.keys[ep] = true
			fmt.Fprintf(w, "up %s %s %s\n", id, Hx(epPrefix+ep), Hx(count()))
		case x < 72:
			ep := Pick(r, epIDs)
			delete(ow.keys, ep)
			fmt.Fprintf(w, "del %s %s\n", id, Hx(epPrefix+ep))
		case x < 75: // compaction drops several keys at once
			for ep := range ow.keys {
				if r.Intn(2) == 0 {
					fmt.Fprintf(w, "del %s %s\n", id, Hx(epPrefix+ep))
					delete(ow.keys, ep)
				}
			}
		case x < 78: // a key the syncer does not know
			fmt.Fprintf(w, "up %s %s %s\n", id, Hx(Pick(r, []string{"k", "endpoint", "proxy_addr2", "é"})), Hx("v"))
		case x < 80:
			fmt.Fprintf(w, "del %s %s\n", id, Hx(Pick(r, []string{"k", "endpoint", "é"})))
		case x < 86:
			if !ow.left {
				ow.unreach = !ow.unreach || r.Intn(4) == 0
				if ow.unreach {
					fmt.Fprintf(w, "unreach %s\n", id)
				} else {
					fmt.Fprintf(w, "reach %s\n", id)
				}
			}
		case x < 90:
			fmt.Fprintf(w, "leave %s\n", id)
			ow.left = true
		case x < 96:
			if ow.left || ow.unreach || r.Intn(6) == 0 {
				fmt.Fprintf(w, "exp %s\n", id)
				ow.present = false
			}
		default:
			genLookups(r, w)
		}
	}
	for _, ep := range epIDs {
		fmt.Fprintf(w, "lookup %s\n", Hx(ep))
	}
}

// genIll: stream (ii) — arbitrary notification sequences (duplicate joins, events of unknown
// nodes, liveness after leave, changing and deleted addresses, the local id everywhere):
// crash-freedom, model equality, and the clauses of the oracle that hold unconditionally.
func genIll(r *rand.Rand, c int, tier string, w *bufio.Writer) {
	fmt.Fprintf(w, "case syncer-ill-%d\n", c)
	ids := []string{"n0", "n1", "n2", "", "é"}
	local := Pick(r, ids[:3])
	fmt.Fprintf(w, "init %s %s %s\n", Hx(local), Hx(Pick(r, addrs)), Hx(Pick(r, addrs)))
	keys := []string{proxyKey, adminKey, epPrefix + "e", epPrefix + "ep", epPrefix, "endpoint", "k", "proxy_addr:x", epPrefix + "é✓"}
	vals := append([]string{"", "h:1", "x"}, counts...)
	nops := 20 + r.Intn(80)
	if tier == "thorough" {
		nops = 40 + r.Intn(300)
	}
	for i := 0; i < nops; i++ {
		id := Hx(Pick(r, ids))
		switch x := r.Intn(100); {
		case x < 15:
			fmt.Fprintf(w, "join %s\n", id)
		case x < 20:
			fmt.Fprintf(w, "leave %s\n", id)
		case x < 27:
			fmt.Fprintf(w, "unreach %s\n", id)
		case x < 34:
			fmt.Fprintf(w, "reach %s\n", id)
		case x < 39:
			fmt.Fprintf(w, "exp %s\n", id)
		case x < 70:
			fmt.Fprintf(w, "up %s %s %s\n", id, Hx(Pick(r, keys)), Hx(Pick(r, vals)))
		case x < 82:
			fmt.Fprintf(w, "del %s %s\n", id, Hx(Pick(r, keys)))
		default:
			genLookups(r, w)
		}
	}
}

// genGossip: thorough tier — 2-3 complete nodes (cluster.State + syncer + gossip state);
// endpoint adds/removes on the owners, compaction, leave, truncated exchanges, relay through
// the third node, liveness and expiry, late joins.
func genGossip(r *rand.Rand, c int, w *bufio.Writer) {
	fmt.Fprintf(w, "case syncer-g-%d\n", c)
	ids := []string{"o", "b", "r"}[:2+r.Intn(2)]
	line := "g.init"
	for _, id := range ids {
		line += " " + Hx(id)
	}
	fmt.Fprintln(w, line)
	left := map[string]bool{}
	cut := func() int {
		switch r.Intn(4) {
		case 0:
			return r.Intn(4)
		case 1:
			return r.Intn(10)
		}
		return 1000
	}
	other := func(a string) string {
		for {
			if b := Pick(r, ids); b != a {
				return b
			}
		}
	}
	nops := 40 + r.Intn(160)
	for i := 0; i < nops; i++ {
		a := Pick(r, ids)
		switch x := r.Intn(100); {
		case x < 18:
			if !left[a] {
				fmt.Fprintf(w, "g.add %s %s\n", Hx(a), Hx(Pick(r, gEps)))
			}
		case x < 34:
			if !left[a] {
				fmt.Fprintf(w, "g.rm %s %s\n", Hx(a), Hx(Pick(r, gEps)))
			}
		case x < 40:
			if !left[a] {
				fmt.Fprintf(w, "g.compact %s %d\n", Hx(a), 1+r.Intn(3))
			}
		case x < 80:
			fmt.Fprintf(w, "g.round %s %s %d %d\n", Hx(a), Hx(other(a)), cut(), cut())
		case x < 86:
			fmt.Fprintf(w, "g.join %s %s %d\n", Hx(a), Hx(other(a)), cut())
		case x < 88:
			fmt.Fprintf(w, "g.push %s %s\n", Hx(a), Hx(other(a)))
		case x < 90:
			if !left[a] && r.Intn(2) == 0 {
				left[a] = true
				fmt.Fprintf(w, "g.leave %s\n", Hx(a))
				fmt.Fprintf(w, "g.push %s %s\n", Hx(a), Hx(other(a)))
			}
		case x < 96:
			s := "-"
			if r.Intn(3) > 0 {
				s = Hx(other(a))
			}
			fmt.Fprintf(w, "g.live %s %s\n", Hx(a), s)
		default:
			fmt.Fprintf(w, "g.expire %s %d\n", Hx(a), Pick(r, []int{-3600, 30, 90, 90, 600}))
		}
	}
}

// failMembership reports a clause that is about membership status in the routing table: it belongs
// to C04 (the table mirrors what is advertised) and to C11 (left / unreachable / expired nodes are
// excluded from routing while so marked).
func failMembership(o *Out, clause, detail string) {
	o.Fail("C04", clause, detail)
	o.Fail("C11", clause, detail)
}
