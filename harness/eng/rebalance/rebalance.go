// Package rebalance is the correspondence engine for upstream.Server.Rebalance (C19).
//
// The real upstream.Server (built with the exported NewServer) runs over a real cluster.State
// populated through its exported API; N open sessions are real yamux server sessions over
// in-memory pipes, registered with Server.addSession through the export shim.  The observable
// of one op is the number of sessions closed by one Rebalance() call (sessions whose IsClosed()
// turned true); closed sessions are then unregistered with Server.removeSession, which is what
// upstreamRoute's defer does in production.
//
// # Floats
//
// Rebalance computes with float64, the Lean model with exact rationals.  The two are compared
// exactly (mode `x`) only on inputs where every float step is exact or provably far from its
// decision boundary:
//
//	Threshold = tn/td, ShedRate = rn/rd with td, rd ∈ {1,2,4,…,64}, tn ≤ 128, rn ≤ 64  (exact doubles),
//	l = open sessions ≤ 400 < 2^9,  0 < avg < 2^12  (avg ≤ 0 involves no rounding at all).
//
//	D1  balance < Threshold, balance = fl((l-avg)/avg):  |b − T| = |64(l−avg) − tn'·avg|/(64·avg) is 0
//	    or ≥ 2^-18, while |fl(b) − b| ≤ 2^-53·|b| < 2^-44; if b = T then b is dyadic, hence exact.
//	D2  shedding > avg·rate, shedding = fl(l·fl(b)), avg·rate exact (≤ 18 significant bits):
//	    |l·b − avg·R| = |64·l(l−avg) − avg²·rn'|/(64·avg) is 0 or ≥ 2^-18; the float error of
//	    l·fl(b) is ≤ 2·2^-53·l·b < 2^-33.
//	D3  int(shedding): l·b = l(l−avg)/avg is an integer or ≥ 1/avg ≥ 2^-12 from one.
//	D4  math.Ceil(avg·rate): argument exact.
//	The remaining case — l(l−avg)/avg lies on the lattice Z/64 (so D2/D3 sit exactly on a
//	boundary) while b = (l−avg)/avg is not dyadic (so fl(b) ≠ b) — is the only one where a
//	rounding error can decide; the generator detects it (`hazard`) and emits mode `~`.
//	(The bound "counts < 2^20" alone does not give D2: it needs l·b·2^-52 ≪ 1/(64·avg), i.e.
//	counts < 2^14; the generator stays far inside that.)
//
// Mode `~` (hazard inputs and all non-dyadic configurations such as the defaults 0.2 / 0.005):
// both sides print `closed ~ open ~`; only the oracle below judges the real code.
//
// # Oracle (on the real code, from the property statement, never through the model)
//
//	avg-active-only   AvgConns() = Σ conns of active rows / #active rows  (from Nodes())
//	cap-open          closed ≤ open
//	cap-rate          closed ≤ max(1, ceil(rate·avg·(1+1e-9)))
//	disabled          loop iteration with Threshold = 0 closes nothing
//	single-node       len(Nodes()) ≤ 1 closes nothing
//	below-min         open < max(1, MinConns) closes nothing
//	at-or-below-avg   open ≤ avg closes nothing (enabled)
//	below-threshold   (open − avg) < Threshold·avg (1e-9 guard band in mode `~`) closes nothing
//	negative-avg      avg < 0 closes nothing
package rebalance

import (
	"bufio"
	"fmt"
	"go/ast"
	"go/parser"
	"go/printer"
	"go/token"
	"math"
	"math/rand"
	"net"
	"path/filepath"
	"reflect"
	"runtime"
	"strconv"
	"strings"
	"time"

	. "verifharness/core"

	"github.com/andydunstall/piko/pkg/log"
	"github.com/andydunstall/piko/server/cluster"
	"github.com/andydunstall/piko/server/config"
	"github.com/andydunstall/piko/server/upstream"
)

type sessPair struct {
	sess *upstream.VSession
	peer net.Conn
	// a session with a proxied connection in flight: the client side runs and one stream is open
	cli    *upstream.VSession
	stream net.Conn
}

func (p *sessPair) closePeer() {
	if p.stream != nil {
		_ = p.stream.Close()
	}
	if p.cli != nil {
		_ = p.cli.Close()
	}
	_ = p.peer.Close()
}

type engine struct {
	cs   *cluster.State
	srv  *upstream.Server
	conf config.RebalanceConfig
	// the fractions of the op line (oracle arithmetic)
	tn, td, rn, rd int64
	hasCfg         bool
	sessions       []sessPair

	guardOnce bool
	guard     string // condition text guarding the start of the rebalance loop, "none", or "unknown: …"
}

// New returns the engine.
func New() Engine { return &engine{} }

func (e *engine) closeAll() {
	for _, p := range e.sessions {
		p.sess.Close()
		p.closePeer()
	}
	e.sessions = nil
}

func (e *engine) Reset() {
	e.closeAll()
	e.cs, e.srv, e.hasCfg = nil, nil, false
}

func parseStatus(s string) cluster.NodeStatus {
	switch s {
	case "active":
		return cluster.NodeStatusActive
	case "unreachable":
		return cluster.NodeStatusUnreachable
	case "left":
		return cluster.NodeStatusLeft
	case "unset":
		return ""
	}
	panic("bad status " + s)
}

func (e *engine) showTable(r bool) string {
	return B01(r) + " nodes=" + strconv.Itoa(len(e.cs.Nodes())) + " avg=" + e.showAvg()
}

func (e *engine) showAvg() (s string) {
	defer func() {
		if r := recover(); r != nil {
			s = "panic"
		}
	}()
	return strconv.Itoa(e.cs.AvgConns())
}

// refAvg computes the average the property statement speaks of from the exported view of the table.
func (e *engine) refAvg() (avg int, ok bool) {
	total, n := 0, 0
	for _, nd := range e.cs.Nodes() {
		if nd.Status != cluster.NodeStatusActive {
			continue
		}
		for _, c := range nd.Endpoints {
			total += c
		}
		n++
	}
	if n == 0 {
		return 0, false
	}
	return total / n, true
}

func (e *engine) oracleAvg(o *Out) {
	want, ok := e.refAvg()
	got := e.showAvg()
	o.Count("oracle:C19:avg")
	if !ok {
		if got != "panic" {
			o.Fail("C19", "avg-active-only", "no active row but AvgConns="+got)
		}
		return
	}
	if got != strconv.Itoa(want) {
		o.Fail("C19", "avg-active-only", fmt.Sprintf("AvgConns=%s active-rows-average=%d", got, want))
	}
}

func (e *engine) setOpen(n int) {
	for len(e.sessions) > n {
		p := e.sessions[len(e.sessions)-1]
		e.sessions = e.sessions[:len(e.sessions)-1]
		if e.srv != nil {
			upstream.VRemoveSession(e.srv, p.sess)
		}
		p.sess.Close()
		p.closePeer()
	}
	for len(e.sessions) < n {
		s, peer := upstream.VNewPipeSession()
		if e.srv != nil {
			upstream.VAddSession(e.srv, s)
		}
		e.sessions = append(e.sessions, sessPair{sess: s, peer: peer})
	}
}

// callRebalance runs f under a watchdog (Session.Close could block).
func callRebalance(f func()) (hung bool, pnc any) {
	done := make(chan any, 1)
	go func() {
		defer func() { done <- recover() }()
		f()
	}()
	select {
	case p := <-done:
		return false, p
	case <-time.After(20 * time.Second):
		return true, nil
	}
}

// rebalanceOp executes one Rebalance() (tick = through the loop's guard) and returns the
// canonical line.
func (e *engine) rebalanceOp(tick bool, mode string, o *Out) string {
	if !e.hasCfg || e.cs == nil {
		return "bad-op"
	}
	before := len(e.sessions)
	if got := upstream.VOpenSessions(e.srv); got != before {
		o.Fail("ANY", "harness-session-count", fmt.Sprintf("server=%d harness=%d", got, before))
	}
	nodes := len(e.cs.Nodes())
	avg, avgOK := e.refAvg()

	call := true
	if tick {
		// one iteration of server.go's loop: it exists iff the guard extracted from the source holds.
		// Only the pinned guard is evaluated here; any other shape (or none) means "always runs", and
		// the `guard` op reports the difference.
		if e.guardText() == guardWant {
			call = e.conf.Threshold != 0
		}
	}
	if call {
		hung, pnc := callRebalance(e.srv.Rebalance)
		if hung {
			o.Fail("ANY", "hang", "Rebalance did not return within 20s")
			return "hang"
		}
		if pnc != nil {
			o.Count("rebalance:panic")
			if avgOK {
				o.Fail("ANY", "panic", fmt.Sprint(pnc))
			}
			return "panic"
		}
	}
	closed := 0
	var keep []sessPair
	for _, p := range e.sessions {
		if p.sess.IsClosed() {
			closed++
			upstream.VRemoveSession(e.srv, p.sess)
			p.closePeer()
		} else {
			keep = append(keep, p)
		}
	}
	e.sessions = keep
	after := upstream.VOpenSessions(e.srv)
	if after != len(keep) {
		o.Fail("ANY", "harness-session-count", fmt.Sprintf("after: server=%d harness=%d", after, len(keep)))
	}

	// ---- oracle, from the property statement
	o.Count("oracle:C19")
	detail := fmt.Sprintf("closed=%d open=%d nodes=%d avg=%d thr=%d/%d rate=%d/%d min=%d tick=%v",
		closed, before, nodes, avg, e.tn, e.td, e.rn, e.rd, e.conf.MinConns, tick)
	enabled := e.tn != 0
	if closed > before {
		o.Fail("C19", "cap-open", detail)
	}
	if avgOK && avg >= 0 {
		rate := float64(e.rn) / float64(e.rd)
		cap := math.Max(1, math.Ceil(rate*float64(avg)*(1+1e-9)))
		if float64(closed) > cap {
			o.Fail("C19", "cap-rate", detail+fmt.Sprintf(" cap=%d", int(cap)))
		}
	}
	if closed > 0 {
		minc := int(e.conf.MinConns)
		if minc < 1 {
			minc = 1
		}
		switch {
		case tick && !enabled:
			o.Fail("C19", "disabled", detail)
		case nodes <= 1:
			o.Fail("C19", "single-node", detail)
		case before < minc:
			o.Fail("C19", "below-min", detail)
		case !avgOK:
			o.Fail("C19", "no-active-node", detail)
		case avg < 0:
			o.Fail("C19", "negative-avg", detail)
		case before <= avg && enabled:
			o.Fail("C19", "at-or-below-avg", detail)
		case avg > 0:
			lhs, rhs := (int64(before)-int64(avg))*e.td, e.tn*int64(avg)
			if mode == "x" {
				if lhs < rhs {
					o.Fail("C19", "below-threshold", detail)
				}
			} else if float64(lhs) < float64(rhs)*(1-1e-9) {
				o.Fail("C19", "below-threshold", detail)
			}
		}
		o.Count("rebalance:shed")
		if closed > 1 {
			o.Count("rebalance:shed>1")
			if avgOK && float64(closed) < math.Ceil(float64(e.rn)/float64(e.rd)*float64(avg)) && closed < before {
				o.Count("rebalance:shed>1:uncapped")
			}
		}
		if closed == before {
			o.Count("rebalance:shed-all")
		}
	} else {
		o.Count("rebalance:none")
	}
	if mode == "~" {
		o.Count("rebalance:mode~")
		return "closed ~ open ~"
	}
	return "closed " + strconv.Itoa(closed) + " open " + strconv.Itoa(after)
}

const guardWant = "s.conf.Upstream.Rebalance.Threshold != 0"

// guardText finds, in the source tree this binary was built from, the condition of the innermost
// `if` enclosing the call `s.upstreamRebalance()` in server/server.go.
func (e *engine) guardText() string {
	if e.guardOnce {
		return e.guard
	}
	e.guardOnce = true
	e.guard = findGuard()
	return e.guard
}

func findGuard() string {
	pc := reflect.ValueOf((*upstream.Server).Rebalance).Pointer()
	fn := runtime.FuncForPC(pc)
	if fn == nil {
		return "unknown: no symbol"
	}
	file, _ := fn.FileLine(pc)
	// <root>/server/upstream/server.go -> <root>/server/server.go
	src := filepath.Join(filepath.Dir(filepath.Dir(file)), "server.go")
	fset := token.NewFileSet()
	f, err := parser.ParseFile(fset, src, nil, 0)
	if err != nil {
		return "unknown: " + err.Error()
	}
	res := "unknown: no call of upstreamRebalance"
	var stack []ast.Node
	ast.Inspect(f, func(n ast.Node) bool {
		if n == nil {
			stack = stack[:len(stack)-1]
			return true
		}
		stack = append(stack, n)
		// a call `s.upstreamRebalance()` or the method value `s.upstreamRebalance` handed to a runner
		sel, ok := n.(*ast.SelectorExpr)
		if !ok || sel.Sel.Name != "upstreamRebalance" {
			return true
		}
		res = "none"
		for i := len(stack) - 1; i >= 0; i-- {
			if ifs, ok := stack[i].(*ast.IfStmt); ok {
				// the call must be in the `then` block, not in the condition or the else branch
				inBody := false
				for j := i + 1; j < len(stack); j++ {
					if stack[j] == ast.Node(ifs.Body) {
						inBody = true
					}
				}
				if !inBody {
					res = "other: call outside the then-branch"
					break
				}
				var b strings.Builder
				_ = printer.Fprint(&b, fset, ifs.Cond)
				res = b.String()
				// `<…>.Threshold != 0` in either order is the pinned guard, whatever the receiver path
				if be, ok := ifs.Cond.(*ast.BinaryExpr); ok && be.Op == token.NEQ {
					x, y := be.X, be.Y
					if lit, ok := x.(*ast.BasicLit); ok && lit.Value == "0" {
						x, y = y, x
					}
					if lit, ok := y.(*ast.BasicLit); ok && lit.Value == "0" {
						var xb strings.Builder
						_ = printer.Fprint(&xb, fset, x)
						if strings.HasSuffix(xb.String(), "Rebalance.Threshold") {
							res = guardWant
						}
					}
				}
				if ifs.Init != nil {
					res = "other: if with init statement; " + res
				}
				break
			}
		}
		return true
	})
	return res
}

func (e *engine) Step(ws []string, o *Out) string {
	if ws[0] != "init" && ws[0] != "guard" && e.cs == nil {
		return "bad-op"
	}
	switch ws[0] {
	case "init":
		e.closeAll()
		e.cs = cluster.NewState(&cluster.Node{ID: Unhx(ws[1])}, log.NewNopLogger())
		e.srv, e.hasCfg = nil, false
		e.oracleAvg(o)
		return e.showTable(true)
	case "node":
		n := &cluster.Node{ID: Unhx(ws[1]), Status: parseStatus(ws[2])}
		for _, kv := range ws[3:] {
			p := strings.SplitN(kv, "=", 2)
			if n.Endpoints == nil {
				n.Endpoints = map[string]int{}
			}
			n.Endpoints[Unhx(p[0])] = Atoi(p[1])
		}
		e.cs.AddNode(n)
		e.oracleAvg(o)
		return e.showTable(true)
	case "status":
		r := e.cs.UpdateRemoteStatus(Unhx(ws[1]), parseStatus(ws[2]))
		e.oracleAvg(o)
		return e.showTable(r)
	case "ep":
		r := e.cs.UpdateRemoteEndpoint(Unhx(ws[1]), Unhx(ws[2]), Atoi(ws[3]))
		e.oracleAvg(o)
		return e.showTable(r)
	case "rmep":
		r := e.cs.RemoveRemoteEndpoint(Unhx(ws[1]), Unhx(ws[2]))
		e.oracleAvg(o)
		return e.showTable(r)
	case "rmnode":
		r := e.cs.RemoveNode(Unhx(ws[1]))
		e.oracleAvg(o)
		return e.showTable(r)
	case "lep":
		e.cs.AddLocalEndpoint(Unhx(ws[1]))
		e.oracleAvg(o)
		return e.showTable(true)
	case "rmlep":
		e.cs.RemoveLocalEndpoint(Unhx(ws[1]))
		e.oracleAvg(o)
		return e.showTable(true)
	case "cfg":
		tn, td, rn, rd, mn := Atoi(ws[1]), Atoi(ws[2]), Atoi(ws[3]), Atoi(ws[4]), Atoi(ws[5])
		if tn < 0 || td <= 0 || rn < 0 || rd <= 0 || mn < 0 {
			return "bad-op"
		}
		e.tn, e.td, e.rn, e.rd = int64(tn), int64(td), int64(rn), int64(rd)
		e.conf = config.RebalanceConfig{
			Threshold: float64(tn) / float64(td), // correctly rounded: the double a config file would give
			ShedRate:  float64(rn) / float64(rd),
			MinConns:  uint(mn),
		}
		if err := e.conf.Validate(); err != nil {
			o.Count("cfg:invalid")
		}
		// a new server with this configuration; the open sessions move to it
		e.srv = upstream.NewServer(nil, nil, nil, e.cs, config.UpstreamConfig{Rebalance: e.conf}, log.NewNopLogger())
		for _, p := range e.sessions {
			upstream.VAddSession(e.srv, p.sess)
		}
		e.hasCfg = true
		return "ok"
	case "open":
		n := Atoi(ws[1])
		if n < 0 || n > 100000 {
			return "bad-op"
		}
		e.setOpen(n)
		return "open " + strconv.Itoa(len(e.sessions))
	case "busy":
		// busy <k>: k of the open sessions carry a proxied connection (an open yamux stream).  What a
		// rebalance step may close does not depend on it.
		k := Atoi(ws[1])
		if k < 0 || k > len(e.sessions) {
			return "bad-op"
		}
		// spread the busy sessions over the slice (the server ranges over a map anyway)
		made := 0
		for i := range e.sessions {
			if made >= k {
				break
			}
			p := &e.sessions[(i*7919)%len(e.sessions)]
			if p.stream != nil {
				made++
				continue
			}
			if p.cli == nil {
				p.cli = upstream.VClientOn(p.peer)
				cli := p.cli
				go func() {
					for {
						st, err := cli.AcceptStream()
						if err != nil {
							return
						}
						_ = st // held open until the session ends
					}
				}()
			}
			st, err := p.sess.OpenStream()
			if err != nil {
				o.Fail("ANY", "harness-open-stream", err.Error())
				break
			}
			p.stream = st
			made++
		}
		o.Count("busy")
		return "busy " + strconv.Itoa(k)
	case "rebalance", "tick":
		if len(ws) != 2 || (ws[1] != "x" && ws[1] != "~") {
			return "bad-op"
		}
		return e.rebalanceOp(ws[0] == "tick", ws[1], o)
	case "guard":
		g := e.guardText()
		if g != guardWant {
			o.Count("guard:changed")
		}
		return "guard " + Hx(g)
	}
	return "bad-op"
}

// ---------------------------------------------------------------- generator

// genNode mirrors one row of the table so the generator knows avg (only to pick interesting
// session counts and to classify float hazards; it decides nothing).
type genNode struct {
	status string
	eps    map[string]int
}

type genState struct {
	nodes map[string]*genNode // includes the local node "n0"
	order []string            // remote ids in creation order
}

func (g *genState) avg() int {
	total, n := 0, 0
	for _, nd := range g.nodes {
		if nd.status != "active" {
			continue
		}
		for _, c := range nd.eps {
			total += c
		}
		n++
	}
	return total / n // Go division, like AvgConns; the local node is always active
}

func gcd(a, b int) int {
	for b != 0 {
		a, b = b, a%b
	}
	if a < 0 {
		return -a
	}
	return a
}

func pow2(n int) bool { return n > 0 && n&(n-1) == 0 }

// hazard: the exact shedding l(l−avg)/avg lies on the lattice Z/64 while the balance
// (l−avg)/avg is not a dyadic rational (see the package comment).
func hazard(l, avg int) bool {
	if avg <= 0 || l <= avg {
		return false
	}
	if pow2(avg / gcd(avg, l-avg)) {
		return false
	}
	return (64*l*(l-avg))%avg == 0
}

// hazardUpTo: some l' ≤ l is a hazard (used when the generator only knows an upper bound of l).
func hazardUpTo(l, avg int) bool {
	for x := 0; x <= l; x++ {
		if hazard(x, avg) {
			return true
		}
	}
	return false
}

var epNames = []string{"e", "ep2", "é✓"}

func (e *engine) Gen(r *rand.Rand, n int, tier string, w *bufio.Writer) {
	for c := 0; c < n; c++ {
		fmt.Fprintf(w, "case rebalance-%d\n", c)
		g := &genState{nodes: map[string]*genNode{"n0": {status: "active", eps: map[string]int{}}}}
		fmt.Fprintf(w, "init %s\n", Hx("n0"))
		if r.Intn(8) == 0 {
			fmt.Fprintln(w, "guard")
		}
		// scale of the per-node connection counts of this case (0 gives integer averages of 0)
		scale := Pick(r, []int{0, 1, 2, 5, 10, 30, 60, 150, 400})
		count := func() int {
			switch x := r.Intn(40); {
			case x == 0:
				return -1 - r.Intn(5) // a gossiped count is whatever Atoi produced
			case x < 4:
				return 0
			}
			if scale == 0 {
				return r.Intn(2)
			}
			return r.Intn(2*scale + 1)
		}
		statuses := []string{"active", "active", "active", "unreachable", "left"}
		addNode := func(id string) {
			st := Pick(r, statuses)
			if r.Intn(25) == 0 {
				st = "unset"
			}
			nd := &genNode{status: st, eps: map[string]int{}}
			line := fmt.Sprintf("node %s %s", Hx(id), st)
			for _, ep := range epNames[:1+r.Intn(len(epNames))] {
				if r.Intn(4) != 0 {
					k := count()
					nd.eps[ep] = k
					line += fmt.Sprintf(" %s=%d", Hx(ep), k)
				}
			}
			fmt.Fprintln(w, line)
			if id != "n0" { // AddNode refuses the local id
				if _, ok := g.nodes[id]; !ok {
					g.order = append(g.order, id)
				}
				g.nodes[id] = nd
			}
		}
		nremote := Pick(r, []int{0, 1, 1, 2, 2, 3, 3, 4, 5})
		for i := 1; i <= nremote; i++ {
			addNode(fmt.Sprintf("n%d", i))
		}

		// configuration: dyadic (exact comparison possible) or not (oracle only)
		dyadic := r.Intn(10) < 7
		var tn, td, rn, rd, mn int
		newCfg := func() {
			if dyadic {
				td = Pick(r, []int{1, 2, 4, 8, 16, 32, 64, 64, 64})
				switch x := r.Intn(12); {
				case x == 0:
					tn = 0 // disabled
				case x < 6:
					tn = 1 + r.Intn(td) // ≤ 1
				default:
					tn = 1 + r.Intn(2*td) // ≤ 2
				}
				rd = Pick(r, []int{1, 2, 4, 8, 16, 32, 64, 64, 64})
				rn = r.Intn(rd + 1)
				if r.Intn(6) == 0 {
					rn = Pick(r, []int{0, 1, rd})
				}
				if r.Intn(4) == 0 { // low threshold, high rate: the uncapped branch int(l·balance)
					td, tn = 64, 1+r.Intn(6)
					rn = rd - r.Intn(rd/2+1)
				}
			} else {
				td = Pick(r, []int{3, 5, 5, 7, 10, 100, 1000, 12345})
				tn = r.Intn(2*td + 1)
				if r.Intn(12) == 0 {
					tn = 0
				}
				rd = Pick(r, []int{3, 7, 10, 100, 200, 200, 1000})
				rn = r.Intn(rd + 1)
				if r.Intn(3) == 0 {
					tn, td, rn, rd = 1, 5, 1, 200 // the documented 0.2 / 0.005
				}
			}
			mn = Pick(r, []int{0, 0, 1, 2, 5, 10, 20, 50, r.Intn(51)})
			fmt.Fprintf(w, "cfg %d %d %d %d %d\n", tn, td, rn, rd, mn)
		}
		newCfg()

		// local endpoint counts: in production they equal the open sessions; the table and the
		// session map are nevertheless independent inputs of Rebalance
		localEps := 0
		addLocal := func(k int) {
			for i := 0; i < k; i++ {
				ep := Pick(r, epNames)
				fmt.Fprintf(w, "lep %s\n", Hx(ep))
				g.nodes["n0"].eps[ep]++
				localEps++
			}
		}
		pickOpen := func() int {
			avg := g.avg()
			var cands []int
			add := func(x int) {
				if x >= 0 && x <= 400 {
					cands = append(cands, x)
				}
			}
			// around the average, the threshold boundary avg·(1+T), and MinConns
			for d := -1; d <= 1; d++ {
				add(avg + d)
				add(mn + d)
				if avg > 0 {
					b := avg + (tn*avg+td-1)/td // ⌈avg(1+T)⌉
					add(b + d)
				}
			}
			switch x := r.Intn(10); {
			case x < 4 && len(cands) > 0:
				return Pick(r, cands)
			case x < 6:
				return r.Intn(12)
			case x < 8 && avg > 0 && avg < 200:
				return avg + r.Intn(avg+2)
			}
			return r.Intn(401)
		}

		l := pickOpen()
		if r.Intn(3) == 0 && l <= 80 {
			addLocal(l)
		} else if r.Intn(3) == 0 {
			addLocal(r.Intn(6))
		}
		fmt.Fprintf(w, "open %d\n", l)
		genBusy(r, w, l)
		lKnown := true // l is exact (true) or only an upper bound (false)

		emitReb := func() {
			op := "tick"
			if r.Intn(4) == 0 {
				op = "rebalance"
			}
			avg := g.avg()
			mode := "x"
			if !dyadic || (lKnown && hazard(l, avg)) || (!lKnown && hazardUpTo(l, avg)) {
				mode = "~"
			}
			fmt.Fprintf(w, "%s %s\n", op, mode)
			if mode == "~" {
				// the model does not know how many were closed: re-synchronise
				l = pickOpen()
				fmt.Fprintf(w, "open %d\n", l)
				genBusy(r, w, l)
				lKnown = true
			} else {
				lKnown = false // something ≤ l remains
			}
		}

		nops := 4 + r.Intn(8)
		if tier == "thorough" {
			nops = 6 + r.Intn(20)
		}
		for i := 0; i < nops; i++ {
			switch x := r.Intn(20); {
			case x < 9:
				emitReb()
			case x < 11:
				l = pickOpen()
				fmt.Fprintf(w, "open %d\n", l)
				genBusy(r, w, l)
				lKnown = true
				emitReb()
			case x < 12:
				newCfg()
			case x < 13:
				addNode(fmt.Sprintf("n%d", r.Intn(7))) // may overwrite a row, or be the refused local id
			case x < 15 && len(g.order) > 0:
				id := Pick(r, g.order)
				st := Pick(r, []string{"active", "unreachable", "left"})
				fmt.Fprintf(w, "status %s %s\n", Hx(id), st)
				if nd, ok := g.nodes[id]; ok {
					nd.status = st
				}
			case x < 17 && len(g.order) > 0:
				id, ep, k := Pick(r, g.order), Pick(r, epNames), count()
				fmt.Fprintf(w, "ep %s %s %d\n", Hx(id), Hx(ep), k)
				if nd, ok := g.nodes[id]; ok {
					nd.eps[ep] = k
				}
			case x < 18 && len(g.order) > 0:
				id := Pick(r, append(append([]string(nil), g.order...), "n0", "nx"))
				if r.Intn(2) == 0 {
					ep := Pick(r, epNames)
					fmt.Fprintf(w, "rmep %s %s\n", Hx(id), Hx(ep))
					if nd, ok := g.nodes[id]; ok && id != "n0" {
						delete(nd.eps, ep)
					}
				} else {
					fmt.Fprintf(w, "rmnode %s\n", Hx(id))
					if id != "n0" {
						delete(g.nodes, id)
						for j, y := range g.order {
							if y == id {
								g.order = append(append([]string(nil), g.order[:j]...), g.order[j+1:]...)
								break
							}
						}
					}
				}
			case x < 19:
				if r.Intn(2) == 0 || localEps == 0 {
					addLocal(1 + r.Intn(3))
				} else {
					ep := Pick(r, epNames)
					fmt.Fprintf(w, "rmlep %s\n", Hx(ep))
					if k := g.nodes["n0"].eps[ep]; k > 1 {
						g.nodes["n0"].eps[ep] = k - 1
						localEps--
					} else if k == 1 {
						delete(g.nodes["n0"].eps, ep)
						localEps--
					}
				}
			default:
				emitReb()
			}
		}
	}
}

// genBusy: now and then some of the sessions carry a proxied connection in flight
func genBusy(r *rand.Rand, w *bufio.Writer, open int) {
	if open == 0 || open > 300 || r.Intn(3) != 0 {
		return
	}
	k := 1 + r.Intn(open)
	if r.Intn(3) == 0 {
		k = open - r.Intn(Min(open, 3))
	}
	fmt.Fprintf(w, "busy %d\n", k)
}

func Min(a, b int) int {
	if a < b {
		return a
	}
	return b
}
