// Package sys is the correspondence engine for the WIRING of a whole piko node, N times in one
// process (C04, C01 at system level): every node is a real cluster.State, a real syncer that is
// the gossip Watcher of a real clusterState and (through Sync) the cluster's local-endpoint
// subscriber, and a real upstream.LoadBalancedManager - built exactly as server/gossip.NewGossip
// and server.NewServer build them (and as engine mgr's `init` builds one).  The nodes exchange
// real encoded packets through a pool as in engine gossip.  The Lean side is PikoModel/Sys
// (`Sys.step`), the model of the system theorems C04_mirror_system / C01_settled_system.
package sys

import (
	"bufio"
	"fmt"
	"math/rand"
	"net"
	"sort"
	"strconv"
	"strings"
	"time"

	. "verifharness/core"

	pg "github.com/andydunstall/piko/pkg/gossip"
	"github.com/andydunstall/piko/pkg/log"
	"github.com/andydunstall/piko/server/cluster"
	sg "github.com/andydunstall/piko/server/gossip"
	"github.com/andydunstall/piko/server/upstream"
)

// fakeUp is an upstream object; identity is the pointer (one per node x uid x endpoint).
type fakeUp struct {
	id int
	ep string
}

func (u *fakeUp) EndpointID() string      { return u.ep }
func (u *fakeUp) Dial() (net.Conn, error) { return nil, fmt.Errorf("not dialable") }
func (u *fakeUp) Forward() bool           { return false }

// scriptFD is the scripted failure detector (op `live`).
type scriptFD struct{ suspected map[string]bool }

func (f *scriptFD) Report(string) {}
func (f *scriptFD) SuspicionLevel(id string) float64 {
	if f.suspected[id] {
		return 1000
	}
	return 0
}
func (f *scriptFD) Remove(string) {}

// snode is one complete node stack.
type snode struct {
	id, addr string
	cs       *cluster.State
	sy       *sg.VSyncer
	st       *pg.VState
	fd       *scriptFD
	mgr      *upstream.LoadBalancedManager
	ups      map[string]*fakeUp
}

func (g *snode) up(uid int, ep string) *fakeUp {
	k := strconv.Itoa(uid) + "/" + ep
	u, ok := g.ups[k]
	if !ok {
		u = &fakeUp{id: uid, ep: ep}
		g.ups[k] = u
	}
	return u
}

// left: the node has announced its departure (read from the real gossip state).
func (g *snode) left() bool { return g.st.LocalNode().Left }

type packet struct {
	digest       bool
	src, srcAddr string
	dst          string
	b            []byte
}

type engine struct {
	nodes  map[string]*snode
	order  []string
	pool   []packet
	eps    map[string]bool // every endpoint id named by an add/rm of this case
	anyExp bool            // some observer has expired some node in this case
}

// New returns the engine.
func New() Engine { return &engine{} }

func (e *engine) Reset() {
	e.nodes = map[string]*snode{}
	e.order = nil
	e.pool = nil
	e.eps = map[string]bool{}
	e.anyExp = false
}

const huge = 1 << 30

// ---------------------------------------------------------------- printing (copied from engines
// gossip / syncer / mgr: the formats must stay byte-identical with Driver/{Gossip,Syncer,Mgr}.lean)

func showEntry(en pg.Entry) string {
	s := Hx(en.Key) + "=" + Hx(en.Value) + "@" + strconv.FormatUint(en.Version, 10)
	if en.Deleted {
		s += "D"
	}
	if en.Internal {
		s += "I"
	}
	return s
}

func showEntries(es []pg.Entry) string {
	xs := make([]string, len(es))
	for i, en := range es {
		xs[i] = showEntry(en)
	}
	return strings.Join(xs, ",")
}

func showGNode(n *pg.NodeState) string {
	return Hx(n.ID) + "@" + Hx(n.Addr) + ":v" + strconv.FormatUint(n.Version, 10) + ":L" + B01(n.Left) +
		":U" + B01(n.Unreachable) + ":X" + B01(!n.Expiry.IsZero()) + "{" + showEntries(n.Entries) + "}"
}

func (g *snode) showState() string {
	var xs []string
	for _, m := range g.st.Nodes() {
		n, _ := g.st.Node(m.ID)
		xs = append(xs, showGNode(n))
	}
	return "[" + SortedJoin(xs, ";") + "]"
}

func showStatus(s cluster.NodeStatus) string {
	if s == "" {
		return "-"
	}
	return string(s)
}

func showCNode(n *cluster.Node) string {
	return Hx(n.ID) + " " + showStatus(n.Status) + " " + Hx(n.ProxyAddr) + " " + Hx(n.AdminAddr) + " " + ShowCounts(n.Endpoints)
}

func showCNodes(ns []*cluster.Node) string {
	xs := make([]string, len(ns))
	for i, n := range ns {
		xs[i] = showCNode(n)
	}
	return SortedJoin(xs, ";")
}

// showOne: registry, routing table + pending map, own gossip node + views of one node.
func (g *snode) showOne() string {
	return Hx(g.id) + " eps=" + ShowCounts(g.mgr.Endpoints()) +
		" T(" + showCNodes(g.cs.Nodes()) + ") P(" + showCNodes(sg.VPendingNodes(g.sy)) + ")" +
		" st=" + g.showState()
}

func showDigest(d pg.VDigest) string {
	xs := make([]string, len(d))
	for i, x := range d {
		xs[i] = Hx(x.ID) + "@" + Hx(x.Addr) + ":v" + strconv.FormatUint(x.Version, 10) + ":L" + B01(x.Left)
	}
	return strings.Join(xs, ",")
}

func showDelta(d pg.VDelta) string {
	xs := make([]string, len(d))
	for i, x := range d {
		xs[i] = Hx(x.ID) + "@" + Hx(x.Addr) + "{" + showEntries(x.Entries) + "}"
	}
	return strings.Join(xs, "|")
}

func showPacket(p packet) string {
	if p.digest {
		h, d, err := pg.VDecodeDigest(p.b)
		if err != nil {
			return "digest(undecodable:" + err.Error() + ")"
		}
		return "digest(" + Hx(h.NodeID) + "@" + Hx(h.Addr) + ">" + Hx(p.dst) + ",r" + B01(h.Request) + ")[" + showDigest(d) + "]"
	}
	h, d, err := pg.VDecodeDelta(p.b)
	if err != nil {
		return "delta(undecodable:" + err.Error() + ")"
	}
	return "delta(" + Hx(h.NodeID) + "@" + Hx(h.Addr) + ">" + Hx(p.dst) + ")[" + showDelta(d) + "]"
}

func (e *engine) line(op string, who []*snode, sent []packet) string {
	ws := make([]string, len(who))
	for i, g := range who {
		ws[i] = g.showOne()
	}
	ps := make([]string, len(sent))
	for i, p := range sent {
		ps[i] = showPacket(p)
	}
	return op + " " + strings.Join(ws, " | ") + " out=[" + strings.Join(ps, " ") + "]"
}

// ---------------------------------------------------------------- packets (as engine gossip)

func deltaItems(d pg.VDelta) int {
	n := 0
	for _, x := range d {
		n += 1 + len(x.Entries)
	}
	return n
}

// encodeDeltaCut runs the REAL encodeDelta with the smallest maxPacketSize that lets `cut`
// whole items through (binary search over max), so the real truncation loop decides.
func encodeDeltaCut(h pg.VDeltaHeader, d pg.VDelta, cut int, o *Out) []byte {
	full, err := pg.VEncodeDelta(h, d, huge)
	if err != nil {
		panic(err)
	}
	if cut >= deltaItems(d) {
		return full
	}
	hdr, err := pg.VEncodeDelta(h, nil, huge)
	if err != nil {
		panic(err)
	}
	lo, hi := len(hdr), len(full) // items(lo) = 0 <= cut < items(hi)
	items := func(max int) int {
		b, err := pg.VEncodeDelta(h, d, max)
		if err != nil {
			return -1
		}
		_, dd, err := pg.VDecodeDelta(b)
		if err != nil {
			o.Fail("C13", "own-packet-undecodable", err.Error())
			return -1
		}
		return deltaItems(dd)
	}
	for lo < hi {
		mid := (lo + hi) / 2
		if items(mid) >= cut {
			hi = mid
		} else {
			lo = mid + 1
		}
	}
	b, _ := pg.VEncodeDelta(h, d, lo)
	o.Count("delta:truncated")
	return b
}

func encodeDigestCut(h pg.VDigestHeader, d pg.VDigest, cut int, o *Out) []byte {
	full, err := pg.VEncodeDigest(h, d, huge)
	if err != nil {
		panic(err)
	}
	if cut >= len(d) {
		return full
	}
	pre, _ := pg.VEncodeDigest(h, d[:cut], huge)
	b, err := pg.VEncodeDigest(h, d, len(pre))
	if err != nil {
		panic(err)
	}
	o.Count("digest:truncated")
	return b
}

func parseKV(pfx, s string) string {
	if !strings.HasPrefix(s, pfx) {
		panic("expected " + pfx + " got " + s)
	}
	return s[len(pfx):]
}

func parseInts(s string) []int {
	if s == "-" {
		return nil
	}
	var out []int
	for _, x := range strings.Split(s, ",") {
		out = append(out, Atoi(x))
	}
	return out
}

func (g *snode) sortedDigest() pg.VDigest {
	d := g.st.Digest()
	sort.Slice(d, func(i, j int) bool { return d[i].ID < d[j].ID })
	return d
}

func selectIdx(p []int, d pg.VDigest) pg.VDigest {
	var out pg.VDigest
	for _, i := range p {
		if i >= 0 && i < len(d) {
			out = append(out, d[i])
		}
	}
	return out
}

func (e *engine) byAddr(addr string) *snode {
	for _, id := range e.order {
		if e.nodes[id].addr == addr {
			return e.nodes[id]
		}
	}
	return nil
}

// ---------------------------------------------------------------- ops

func (e *engine) Step(ws []string, o *Out) string {
	out := e.step(ws, o)
	e.oracle(o)
	return out
}

func (e *engine) step(ws []string, o *Out) string {
	known := map[string]int{"boot": 5, "add": 4, "rm": 4, "leave": 2, "compact": 3, "senddigest": 6, "deliver": 5,
		"join": 4, "leavestream": 3, "live": 3, "expire": 3}
	if n, ok := known[ws[0]]; !ok || n != len(ws) {
		return "bad-op"
	}
	switch ws[0] {
	case "boot":
		// one node stack, as server/gossip.NewGossip + server.NewServer wire it (and engine mgr's init)
		id, ga, pa, aa := Unhx(ws[1]), Unhx(ws[2]), Unhx(ws[3]), Unhx(ws[4])
		if _, ok := e.nodes[id]; ok || e.byAddr(ga) != nil {
			return "err exists"
		}
		g := &snode{id: id, addr: ga, fd: &scriptFD{suspected: map[string]bool{}}, ups: map[string]*fakeUp{}}
		g.cs = cluster.NewState(&cluster.Node{ID: id, ProxyAddr: pa, AdminAddr: aa}, log.NewNopLogger())
		g.sy = sg.VNewSyncer(g.cs, log.NewNopLogger())
		g.st = pg.VNewClusterState(id, ga, g.fd, g.sy)
		g.sy.Sync(g.st)
		g.mgr = upstream.NewLoadBalancedManager(g.cs, nil)
		e.nodes[id] = g
		e.order = append(e.order, id)
		return e.line(ws[0], []*snode{g}, nil)
	case "add", "rm":
		g, ok := e.nodes[Unhx(ws[1])]
		if !ok {
			return "err no-node"
		}
		uid, ep := Atoi(ws[2]), Unhx(ws[3])
		e.eps[ep] = true
		if ws[0] == "add" {
			g.mgr.AddConn(g.up(uid, ep))
		} else {
			g.mgr.RemoveConn(g.up(uid, ep))
		}
		return e.line(ws[0], []*snode{g}, nil)
	case "leave":
		g, ok := e.nodes[Unhx(ws[1])]
		if !ok {
			return "err no-node"
		}
		g.st.LeaveLocal()
		return e.line(ws[0], []*snode{g}, nil)
	case "compact":
		g, ok := e.nodes[Unhx(ws[1])]
		if !ok {
			return "err no-node"
		}
		thr := Atoi(ws[2])
		panicked := false
		func() {
			defer func() {
				if recover() != nil {
					panicked = true
				}
			}()
			g.st.CompactLocal(thr)
		}()
		if panicked {
			o.Count("compact:panic")
			return "err panic"
		}
		return e.line(ws[0], []*snode{g}, nil)
	case "senddigest":
		g, ok := e.nodes[Unhx(ws[1])]
		if !ok {
			return "err no-node"
		}
		dst, req := Unhx(ws[2]), ws[3] == "1"
		cut, p := Atoi(parseKV("cut=", ws[4])), parseInts(parseKV("p=", ws[5]))
		sel := selectIdx(p, g.sortedDigest())
		b := encodeDigestCut(pg.VDigestHeader{NodeID: g.id, Addr: g.addr, Request: req}, sel, cut, o)
		pk := packet{digest: true, src: g.id, srcAddr: g.addr, dst: dst, b: b}
		e.pool = append(e.pool, pk)
		return e.line(ws[0], []*snode{g}, []packet{pk})
	case "deliver":
		i := Atoi(ws[1])
		if i < 0 || i >= len(e.pool) {
			return "err no-packet"
		}
		cut, p, dcut := Atoi(parseKV("cut=", ws[2])), parseInts(parseKV("p=", ws[3])), Atoi(parseKV("dcut=", ws[4]))
		pk := e.pool[i]
		g := e.byAddr(pk.dst)
		if g == nil {
			return "err no-dst"
		}
		var sent []packet
		if pk.digest {
			h, d, err := pg.VDecodeDigest(pk.b)
			if err != nil {
				o.Fail("C13", "own-packet-undecodable", err.Error())
				return "err undecodable"
			}
			g.st.ApplyDigest(d)
			delta := g.st.Delta(d, false)
			b := encodeDeltaCut(pg.VDeltaHeader{NodeID: g.id, Addr: g.addr}, delta, cut, o)
			sent = append(sent, packet{src: g.id, srcAddr: g.addr, dst: h.Addr, b: b})
			if h.Request {
				sel := selectIdx(p, g.sortedDigest())
				b := encodeDigestCut(pg.VDigestHeader{NodeID: g.id, Addr: g.addr, Request: false}, sel, dcut, o)
				sent = append(sent, packet{digest: true, src: g.id, srcAddr: g.addr, dst: h.Addr, b: b})
			}
			e.pool = append(e.pool, sent...)
			o.Count("deliver:digest")
		} else {
			_, d, err := pg.VDecodeDelta(pk.b)
			if err != nil {
				o.Fail("C13", "own-packet-undecodable", err.Error())
				return "err undecodable"
			}
			for _, de := range d {
				if de.ID != pk.src {
					o.Count("deliver:relay")
					break
				}
			}
			g.st.ApplyDelta(d)
			o.Count("deliver:delta")
		}
		return e.line(ws[0], []*snode{g}, sent)
	case "join", "leavestream":
		n, ok1 := e.nodes[Unhx(ws[1])]
		m, ok2 := e.nodes[Unhx(ws[2])]
		if !ok1 || !ok2 {
			return "err no-node"
		}
		if n == m {
			return "err self"
		}
		// listener.go: the request half at m, the reply half (full delta for n's digest) at n
		m.st.ApplyDelta(n.st.LocalDelta())
		if ws[0] == "leavestream" {
			return e.line(ws[0], []*snode{m}, nil)
		}
		dg := n.sortedDigest()
		m.st.ApplyDigest(dg)
		reply := m.st.Delta(dg, true)
		sort.SliceStable(reply, func(i, j int) bool { return reply[i].ID < reply[j].ID })
		if ws[3] == "1" {
			n.st.ApplyDelta(reply)
		}
		return e.line(ws[0], []*snode{m, n}, nil)
	case "live":
		g, ok := e.nodes[Unhx(ws[1])]
		if !ok {
			return "err no-node"
		}
		g.fd.suspected = map[string]bool{}
		if ws[2] != "-" {
			for _, x := range strings.Split(ws[2], ",") {
				g.fd.suspected[Unhx(x)] = true
			}
		}
		g.st.UpdateLiveness(float64(pg.VSuspicionThreshold))
		return e.line(ws[0], []*snode{g}, nil)
	case "expire":
		g, ok := e.nodes[Unhx(ws[1])]
		if !ok {
			return "err no-node"
		}
		d := Atoi(ws[2])
		before := len(g.st.Nodes())
		g.st.RemoveExpiredAt(time.Now().Add(time.Duration(d) * time.Second))
		if len(g.st.Nodes()) != before {
			e.anyExp = true
			o.Count("expire:removed")
		}
		return e.line(ws[0], []*snode{g}, nil)
	}
	return "bad-op"
}

// ---------------------------------------------------------------- oracles (on the real objects only)

func sameEntries(a, b []pg.Entry) bool { return showEntries(a) == showEntries(b) }

// caughtUp: r's gossip view of a is at a's own version.  After an expiry anywhere in the case a
// view can be at the owner's version and still lack entries (a stale partial delta re-creates the
// forgotten node: observation O2; the theorems exclude `expire`), so the whole view must be equal.
func (e *engine) caughtUp(r, a *snode) (*pg.NodeState, bool) {
	V, ok := r.st.Node(a.id)
	if !ok {
		return nil, false
	}
	O := a.st.LocalNode()
	if V.Version != O.Version {
		return V, false
	}
	if e.anyExp && !sameEntries(V.Entries, O.Entries) {
		return V, false
	}
	return V, true
}

// oracle evaluates, in the state reached, the two system-level statements:
//
// C04 (C04_mirror_system): for nodes r != a that have not left, if r's gossip view of a has a's own
// version then a is not pending at r and r's routing-table row of a has a's proxy and admin address
// and exactly a's registered endpoints with their counts (LoadBalancedManager.Endpoints()), the
// status following r's unreachable flag.
//
// C01 (C01_settled_system): at a node r whose views of all other nodes are caught up (left nodes
// known as left), LookupEndpoint(e) answers a node that has not left, is not flagged unreachable
// and really has an upstream registered for e - and answers one whenever such a node exists.
func (e *engine) oracle(o *Out) {
	for _, rid := range e.order {
		r := e.nodes[rid]
		if r.left() {
			continue
		}
		pend := map[string]bool{}
		for _, n := range sg.VPendingNodes(r.sy) {
			pend[n.ID] = true
		}
		settled := true
		for _, aid := range e.order {
			if aid == rid {
				continue
			}
			a := e.nodes[aid]
			V, cu := e.caughtUp(r, a)
			if a.left() {
				// a departed node is harmless once r knows it has left (or does not know it at all)
				if V != nil && !V.Left {
					settled = false
				}
				continue
			}
			L := a.cs.LocalNode()
			if L.ProxyAddr == "" || L.AdminAddr == "" {
				settled = false // never promoted (config.Validate requires both)
				continue
			}
			if !cu {
				settled = false
				o.Count("mirror:behind")
				continue
			}
			o.Count("oracle:C04:mirror-caught-up")
			who := "observer=" + Hx(rid) + " owner=" + Hx(aid)
			if pend[aid] {
				o.Fail("C04", "mirror-caught-up-but-pending", who)
			}
			row, inT := r.cs.Node(aid)
			if !inT {
				o.Fail("C04", "mirror-caught-up-but-no-row", who)
				continue
			}
			if row.ProxyAddr != L.ProxyAddr || row.AdminAddr != L.AdminAddr {
				o.Fail("C04", "mirror-address", who+" row="+Hx(row.ProxyAddr)+","+Hx(row.AdminAddr)+" owner="+Hx(L.ProxyAddr)+","+Hx(L.AdminAddr))
			}
			if reg := ShowCounts(a.mgr.Endpoints()); ShowCounts(row.Endpoints) != reg {
				o.Fail("C04", "mirror-endpoints", who+" row="+ShowCounts(row.Endpoints)+" registered="+reg)
			}
			want := cluster.NodeStatusActive
			if V.Unreachable {
				want = cluster.NodeStatusUnreachable
			}
			if row.Status != want {
				o.Fail("C04", "mirror-status", fmt.Sprintf("%s status=%s unreachable=%v", who, row.Status, V.Unreachable))
			}
		}
		if !settled {
			continue
		}
		o.Count("oracle:C01:settled-node")
		var eps []string
		for ep := range e.eps {
			eps = append(eps, ep)
		}
		sort.Strings(eps)
		for _, ep := range eps {
			truth := map[string]bool{}
			for _, aid := range e.order {
				a := e.nodes[aid]
				if aid == rid || a.left() || a.mgr.Endpoints()[ep] <= 0 {
					continue
				}
				if V, ok := r.st.Node(aid); ok && !V.Unreachable {
					truth[aid] = true
				}
			}
			n, ok := r.cs.LookupEndpoint(ep)
			who := "node=" + Hx(rid) + " ep=" + Hx(ep)
			switch {
			case ok && !truth[n.ID]:
				o.Fail("C01", "settled-lookup-wrong-node", who+" returned "+Hx(n.ID)+" which has no upstream for it (or has left / is unreachable)")
			case !ok && len(truth) > 0:
				o.Fail("C01", "settled-lookup-misses-upstream", fmt.Sprintf("%s local=%d although %d other node(s) have an upstream", who, r.mgr.Endpoints()[ep], len(truth)))
			}
			if ok {
				o.Count("settled:lookup-found")
			} else {
				o.Count("settled:lookup-none")
			}
		}
	}
}

// ---------------------------------------------------------------- generator

var epAlphabet = []string{"e", "ep", "é✓"}

func b2i(b bool) int {
	if b {
		return 1
	}
	return 0
}

type discard struct{}

func (discard) Write(p []byte) (int, error) { return len(p), nil }

// Gen: 2-4 nodes, 1-3 endpoints, 1-4 upstream ids, 30-120 ops per case (thorough: 60-300): boots,
// then a mix of add/rm (duplicate and unknown removals included), digest exchanges (full and
// truncated, relays, re-deliveries of pooled packets), joins, compaction (threshold 1-3), the
// "withdrawn while the observer is behind and the owner compacts" shape, and - by mode - leave +
// leavestream, liveness flips, expiry.  4 cases in 5 end with a settle phase: every departed node
// notifies every live node, suspicion is cleared, and every ordered pair of live nodes joins.
func (e *engine) Gen(r *rand.Rand, n int, tier string, w *bufio.Writer) {
	for c := 0; c < n; c++ {
		sim := New().(*engine)
		sim.Reset()
		o := NewOut(bufio.NewWriter(discard{}))
		emit := func(format string, a ...any) {
			l := fmt.Sprintf(format, a...)
			fmt.Fprintln(w, l)
			func() {
				defer func() { _ = recover() }()
				sim.step(strings.Fields(l), o)
			}()
		}
		fmt.Fprintf(w, "case sys-%d\n", c)
		nn := 2 + r.Intn(3)
		var ids []string
		for i := 0; i < nn; i++ {
			id := fmt.Sprintf("n%d", i)
			ids = append(ids, id)
			emit("boot %s %s %s %s", Hx(id), Hx("a"+id), Hx(fmt.Sprintf("10.0.0.%d:8000", i+1)), Hx(fmt.Sprintf("10.0.0.%d:8002", i+1)))
		}
		eps := epAlphabet[:1+r.Intn(len(epAlphabet))]
		nups := 1 + r.Intn(4)
		mode := r.Intn(10) // 0-5: no membership ops; 6-7: leave / liveness; 8-9: expiry too
		nops := 30 + r.Intn(91)
		if tier == "thorough" {
			nops = 60 + r.Intn(241)
		}
		alive := func() []string {
			var xs []string
			for _, id := range ids {
				if !sim.nodes[id].left() {
					xs = append(xs, id)
				}
			}
			return xs
		}
		otherOf := func(xs []string, id string) string {
			var ys []string
			for _, x := range xs {
				if x != id {
					ys = append(ys, x)
				}
			}
			if len(ys) == 0 {
				return ""
			}
			return Pick(r, ys)
		}
		perm := func(k int) string {
			if k == 0 {
				return "-"
			}
			p := r.Perm(k)
			if r.Intn(4) == 0 {
				p = p[:1+r.Intn(k)]
			}
			xs := make([]string, len(p))
			for i, x := range p {
				xs[i] = strconv.Itoa(x)
			}
			return strings.Join(xs, ",")
		}
		full := func(k int) string {
			xs := make([]string, k)
			for i := range xs {
				xs[i] = strconv.Itoa(i)
			}
			if k == 0 {
				return "-"
			}
			return strings.Join(xs, ",")
		}
		cut := func() int {
			switch r.Intn(4) {
			case 0:
				return r.Intn(4)
			case 1:
				return r.Intn(12)
			default:
				return 1000
			}
		}
		suspects := func(id string) string {
			g := sim.nodes[id]
			var sus []string
			metas := g.st.Nodes() // map order: sort, the draws below must not depend on it
			sort.Slice(metas, func(i, j int) bool { return metas[i].ID < metas[j].ID })
			for _, m := range metas {
				if m.ID != id && (sim.nodes[m.ID] == nil || sim.nodes[m.ID].left() || r.Intn(4) == 0) && r.Intn(4) > 0 {
					sus = append(sus, Hx(m.ID))
				}
			}
			if r.Intn(4) == 0 { // the acting node's own id in the suspected set (must be ignored)
				sus = append(sus, Hx(id))
			}
			if len(sus) == 0 {
				return "-"
			}
			return strings.Join(sus, ",")
		}
		for i := 0; i < nops; i++ {
			al := alive()
			if len(al) == 0 {
				break
			}
			id := Pick(r, al)
			g := sim.nodes[id]
			x := r.Intn(100)
			switch {
			case x < 16:
				emit("add %s %d %s", Hx(id), 1+r.Intn(nups), Hx(Pick(r, eps)))
			case x < 27:
				uid, ep := 1+r.Intn(nups), Pick(r, eps)
				emit("rm %s %d %s", Hx(id), uid, Hx(ep))
				if r.Intn(4) == 0 { // late duplicate removal
					emit("rm %s %d %s", Hx(id), uid, Hx(ep))
				}
			case x < 31:
				emit("compact %s %d", Hx(id), 1+r.Intn(3))
			case x < 34:
				// an endpoint is withdrawn while an observer that knew it is behind, then the owner
				// compacts: the observer learns of the withdrawal only through the compaction marker
				ob := otherOf(ids, id)
				uid, ep := 1+r.Intn(nups), Pick(r, eps)
				emit("add %s %d %s", Hx(id), uid, Hx(ep))
				emit("join %s %s 1", Hx(id), Hx(ob))
				emit("rm %s %d %s", Hx(id), uid, Hx(ep))
				if r.Intn(2) == 0 {
					emit("add %s %d %s", Hx(id), 1+r.Intn(nups), Hx(Pick(r, eps)))
				}
				emit("compact %s 1", Hx(id))
				if sim.nodes[ob].left() {
					continue
				}
				k := len(sim.nodes[ob].st.Nodes())
				emit("senddigest %s %s 1 cut=1000 p=%s", Hx(ob), Hx("a"+id), full(k))
				di := len(sim.pool) - 1
				emit("deliver %d cut=%d p=%s dcut=1000", di, 1+r.Intn(6), full(len(g.st.Nodes())+1))
				emit("deliver %d cut=1000 p=- dcut=0", di+1) // the (truncated) delta at the observer
				if r.Intn(2) == 0 {
					emit("deliver %d cut=1000 p=- dcut=0", di) // asked again: the rest
					emit("deliver %d cut=1000 p=- dcut=0", len(sim.pool)-1)
				}
			case x < 50:
				dst := Pick(r, ids)
				if dst == id {
					continue
				}
				k := len(g.st.Nodes())
				c := 1000
				if r.Intn(5) == 0 {
					c = r.Intn(k + 1)
				}
				emit("senddigest %s %s %d cut=%d p=%s", Hx(id), Hx("a"+dst), b2i(r.Intn(4) > 0), c, perm(k))
			case x < 82:
				if len(sim.pool) == 0 {
					continue
				}
				pi := r.Intn(len(sim.pool))
				if r.Intn(3) > 0 { // prefer recent packets
					pi = len(sim.pool) - 1 - r.Intn(1+len(sim.pool)/4)
				}
				dn := sim.byAddr(sim.pool[pi].dst)
				k := 1
				if dn != nil {
					if dn.left() {
						continue
					}
					k = len(dn.st.Nodes()) + 1
				}
				emit("deliver %d cut=%d p=%s dcut=%d", pi, cut(), perm(k), 1000-r.Intn(2)*r.Intn(1000))
			case x < 92:
				m := Pick(r, al)
				if m == id {
					continue
				}
				if r.Intn(5) == 0 {
					emit("leavestream %s %s", Hx(id), Hx(m))
				} else {
					emit("join %s %s %d", Hx(id), Hx(m), b2i(r.Intn(4) > 0))
				}
			default:
				if mode < 6 {
					continue
				}
				switch y := r.Intn(8); {
				case y == 0:
					emit("leave %s", Hx(id))
					for _, m := range al { // notify some peers as Gossip.Leave does
						if m != id && r.Intn(2) == 0 {
							emit("leavestream %s %s", Hx(id), Hx(m))
						}
					}
					if r.Intn(2) == 0 { // the compaction timer fires after the node has left
						emit("compact %s 1", Hx(id))
						for _, m := range al {
							if m != id && r.Intn(2) == 0 {
								emit("join %s %s 1", Hx(m), Hx(id))
							}
						}
					}
				case y == 1:
					// a node that is unreachable at an observer leaves, the observer learns of it
					// (directly or relayed), then the suspicion drops again: the row must stay left
					ob := otherOf(al, id)
					if ob == "" {
						continue
					}
					emit("join %s %s 1", Hx(id), Hx(ob))
					emit("live %s %s", Hx(ob), Hx(id))
					emit("leave %s", Hx(id))
					if via := otherOf(al, id); via != ob && r.Intn(2) == 0 {
						emit("leavestream %s %s", Hx(id), Hx(via))
						emit("join %s %s 1", Hx(ob), Hx(via))
					} else {
						emit("leavestream %s %s", Hx(id), Hx(ob))
					}
					emit("live %s -", Hx(ob))
				case y < 6 || mode < 8:
					emit("live %s %s", Hx(id), suspects(id))
				default:
					emit("expire %s %d", Hx(id), Pick(r, []int{-3600, 30, 90, 90, 600}))
				}
			}
		}
		if c%5 == 4 {
			continue
		}
		// settle: every departed node tells every live node, the failure detectors calm down, and
		// every ordered pair of live nodes does a stream exchange.  Then every live node's view of
		// every other node is caught up and the oracle's premises hold everywhere.
		al := alive()
		for _, x := range ids {
			if !sim.nodes[x].left() {
				continue
			}
			for _, m := range al {
				emit("leavestream %s %s", Hx(x), Hx(m))
			}
		}
		for _, a := range al {
			emit("live %s -", Hx(a))
		}
		for _, a := range al {
			for _, b := range al {
				if a != b {
					emit("join %s %s 1", Hx(a), Hx(b))
				}
			}
		}
		// a last change after the cluster has settled, propagated by one more exchange
		if len(al) >= 2 && r.Intn(2) == 0 {
			a := Pick(r, al)
			if r.Intn(2) == 0 {
				emit("add %s %d %s", Hx(a), 1+r.Intn(nups), Hx(Pick(r, eps)))
			} else {
				emit("rm %s %d %s", Hx(a), 1+r.Intn(nups), Hx(Pick(r, eps)))
			}
			for _, b := range al {
				if a != b {
					emit("leavestream %s %s", Hx(a), Hx(b))
				}
			}
		}
	}
}
