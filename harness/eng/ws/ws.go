// Package ws is the correspondence engine for pkg/websocket.Conn (C07): a REAL
// pkg/websocket.Conn on each side of a REAL gorilla connection over loopback TCP.
//
// Determinism.  Conn.Read returns whatever the inner gorilla reader returns; on a raw socket
// that depends on TCP segmentation and timing.  The harness therefore puts a thin net.Conn
// decorator (detConn) between gorilla and the TCP socket: a pump goroutine drains the socket
// into memory (so writes never block, however large) and Read waits until the bytes the peer
// has already handed to Write have arrived (so "everything written so far is readable").  The
// decorator changes no byte and no ordering.  With gorilla's buffers sized by the generator
// (`open <rbuf> <wbuf>`: every pending frame fits the read buffer, no fragmentation on the
// client side) the inner reader then returns exactly min(len b, rest of message), which is the
// choice the model driver uses for `read`.  With `open 0 0` the connection has piko's
// production configuration (4096-byte buffers, fragmented client frames, real short reads);
// there only choice-independent ops (`readn`, `rawread`) are generated.
package ws

import (
	"bufio"
	"context"
	"encoding/hex"
	"errors"
	"fmt"
	"io"
	"math/rand"
	"net"
	"net/http"
	"os"
	"strconv"
	"strings"
	"sync"
	"sync/atomic"
	"time"

	gws "github.com/gorilla/websocket"

	pws "github.com/andydunstall/piko/pkg/websocket"

	. "verifharness/core"
)

// ---------------------------------------------------------------- deterministic transport

type counter struct{ n atomic.Int64 }

// detConn decorates one end of a loopback TCP connection (see the package comment).
type detConn struct {
	net.Conn
	out *counter // bytes this end has handed to Write
	in  *counter // bytes the peer has handed to Write

	mu      sync.Mutex
	cond    *sync.Cond
	buf     []byte
	off     int
	rerr    error
	nread   int64
	pumped  int64
	lclosed bool
	rdl     time.Time
}

func newDetConn(c net.Conn, out, in *counter) *detConn {
	d := &detConn{Conn: c, out: out, in: in}
	d.cond = sync.NewCond(&d.mu)
	go d.pump()
	return d
}

func (d *detConn) pump() {
	tmp := make([]byte, 256<<10)
	for {
		n, err := d.Conn.Read(tmp)
		d.mu.Lock()
		if n > 0 {
			if d.off > 0 && d.off == len(d.buf) {
				d.buf, d.off = d.buf[:0], 0
			}
			d.buf = append(d.buf, tmp[:n]...)
			d.pumped += int64(n)
		}
		if err != nil {
			d.rerr = err
		}
		d.cond.Broadcast()
		d.mu.Unlock()
		if err != nil {
			return
		}
	}
}

func (d *detConn) Read(p []byte) (int, error) {
	if len(p) == 0 {
		return 0, nil
	}
	d.mu.Lock()
	defer d.mu.Unlock()
	for {
		if d.lclosed {
			return 0, &net.OpError{Op: "read", Net: "tcp", Err: net.ErrClosed}
		}
		if !d.rdl.IsZero() && !time.Now().Before(d.rdl) {
			return 0, os.ErrDeadlineExceeded
		}
		have := len(d.buf) - d.off
		want := d.in.n.Load() - d.nread
		if want > int64(len(p)) {
			want = int64(len(p))
		}
		if want < 1 {
			want = 1
		}
		if int64(have) >= want || (have > 0 && d.rerr != nil) {
			n := copy(p, d.buf[d.off:])
			d.off += n
			d.nread += int64(n)
			return n, nil
		}
		if d.rerr != nil {
			return 0, d.rerr
		}
		d.cond.Wait()
	}
}

func (d *detConn) Write(p []byte) (int, error) {
	d.out.n.Add(int64(len(p)))
	return d.Conn.Write(p)
}

// Close first waits (bounded) until everything the peer has already written has been pumped
// out of the socket: closing a TCP socket with unread inbound data sends RST instead of FIN,
// and the peer's Read then fails with ECONNRESET (class `other`) instead of the abnormal
// closure that Conn.Read maps to net.ErrClosed - a timing-dependent TCP effect that is outside
// the model (see checks.d/C07.json `assumed`).
func (d *detConn) Close() error {
	d.mu.Lock()
	if !d.lclosed {
		dl := time.Now().Add(2 * time.Second)
		for d.pumped < d.in.n.Load() && d.rerr == nil && time.Now().Before(dl) {
			d.mu.Unlock()
			time.Sleep(200 * time.Microsecond)
			d.mu.Lock()
		}
	}
	d.lclosed = true
	d.cond.Broadcast()
	d.mu.Unlock()
	return d.Conn.Close()
}

func (d *detConn) SetDeadline(t time.Time) error {
	_ = d.SetReadDeadline(t)
	return d.Conn.SetWriteDeadline(t)
}

func (d *detConn) SetReadDeadline(t time.Time) error {
	d.mu.Lock()
	d.rdl = t
	d.cond.Broadcast()
	d.mu.Unlock()
	if !t.IsZero() {
		if w := time.Until(t); w > 0 {
			time.AfterFunc(w, func() { d.mu.Lock(); d.cond.Broadcast(); d.mu.Unlock() })
		}
	}
	return nil
}

// hijackRW is the minimal hijackable http.ResponseWriter gorilla's Upgrader needs.
type hijackRW struct {
	c   net.Conn
	brw *bufio.ReadWriter
	h   http.Header
}

func (h *hijackRW) Header() http.Header         { return h.h }
func (h *hijackRW) Write(b []byte) (int, error) { return h.brw.Write(b) }
func (h *hijackRW) WriteHeader(code int) {
	fmt.Fprintf(h.brw, "HTTP/1.1 %d %s\r\n", code, http.StatusText(code))
	_ = h.h.Write(h.brw)
	_, _ = h.brw.WriteString("\r\n")
	_ = h.brw.Flush()
}
func (h *hijackRW) Hijack() (net.Conn, *bufio.ReadWriter, error) { return h.c, h.brw, nil }

// ---------------------------------------------------------------- engine

type side struct {
	raw     *gws.Conn
	conn    *pws.Conn
	lclosed bool
	csent   bool
	// oracle bookkeeping for the direction peer -> this side
	sent     []byte // concatenation of the binary payloads the peer has written, in order
	bounds   map[int]bool
	recv     int  // bytes this side has received so far
	allBin   bool // only binary messages were sent in this direction
	sawClose bool // a read on this side returned the closed class
}

type wsEngine struct {
	ln     net.Listener
	a, b   *side
	opened bool
	dead   bool
	tun    *tunnel
}

// New returns the engine.
func New() Engine { return &wsEngine{} }

func (e *wsEngine) listener() net.Listener {
	if e.ln == nil {
		ln, err := ListenRetry("tcp", "127.0.0.1:0")
		if err != nil {
			panic(err)
		}
		e.ln = ln
	}
	return e.ln
}

func (e *wsEngine) teardown() {
	for _, s := range []*side{e.a, e.b} {
		if s != nil && s.raw != nil {
			_ = s.raw.Close()
		}
	}
	e.a, e.b = nil, nil
	e.opened = false
}

func (e *wsEngine) Reset() {
	e.teardown()
	e.dead = false
}

func newSide() *side { return &side{bounds: map[int]bool{0: true}, allBin: true} }

// open builds the connection pair: a = gorilla Dialer (client role), b = gorilla Upgrader
// (server role, as server/proxy/tcpproxy.go does), both over detConn-decorated loopback TCP.
func (e *wsEngine) open(rbuf, wbuf int) error {
	e.teardown()
	ln := e.listener()
	ab, ba := &counter{}, &counter{}
	type acc struct {
		c   net.Conn
		err error
	}
	ch := make(chan acc, 1)
	go func() {
		c, err := ln.Accept()
		ch <- acc{c, err}
	}()
	srvCh := make(chan *gws.Conn, 1)
	errCh := make(chan error, 2)
	go func() {
		ac := <-ch
		if ac.err != nil {
			errCh <- ac.err
			return
		}
		dc := newDetConn(ac.c, ba, ab)
		br := bufio.NewReaderSize(dc, 4<<10)
		bw := bufio.NewWriterSize(dc, 4<<10)
		req, err := http.ReadRequest(br)
		if err != nil {
			errCh <- err
			return
		}
		up := &gws.Upgrader{ReadBufferSize: rbuf, WriteBufferSize: wbuf}
		c, err := up.Upgrade(&hijackRW{c: dc, brw: bufio.NewReadWriter(br, bw), h: http.Header{}}, req, nil)
		if err != nil {
			errCh <- err
			return
		}
		srvCh <- c
	}()
	d := &gws.Dialer{
		ReadBufferSize: rbuf, WriteBufferSize: wbuf,
		NetDialContext: func(ctx context.Context, network, addr string) (net.Conn, error) {
			c, err := (&net.Dialer{}).DialContext(ctx, network, addr)
			if err != nil {
				return nil, err
			}
			return newDetConn(c, ab, ba), nil
		},
	}
	cc, _, err := d.Dial("ws://"+ln.Addr().String()+"/", nil)
	if err != nil {
		return err
	}
	select {
	case sc := <-srvCh:
		e.a, e.b = newSide(), newSide()
		e.a.raw, e.a.conn = cc, pws.New(cc)
		e.b.raw, e.b.conn = sc, pws.New(sc)
	case err := <-errCh:
		_ = cc.Close()
		return err
	case <-time.After(10 * time.Second):
		_ = cc.Close()
		return errors.New("upgrade timeout")
	}
	e.opened = true
	return nil
}

func (e *wsEngine) get(x string) (me, peer *side) {
	if x == "a" {
		return e.a, e.b
	}
	return e.b, e.a
}

func unhexB(t string) []byte {
	if t == "-" {
		return nil
	}
	b, err := hex.DecodeString(t)
	if err != nil {
		panic("bad hex token")
	}
	return b
}

func hexB(b []byte) string {
	if len(b) == 0 {
		return "-"
	}
	return hex.EncodeToString(b)
}

// class maps an error to the printed class.
func class(err error) string {
	if err == nil {
		return "ok"
	}
	if err == net.ErrClosed {
		return "closed"
	}
	var ce *gws.CloseError
	if errors.As(err, &ce) {
		return "closeerr"
	}
	if errors.Is(err, net.ErrClosed) {
		return "opclosed"
	}
	// a non-binary message: piko reports it with the offending type in the text.  The wording is
	// not part of any property: the comparison projects `badtype:N` to `other` on both sides
	// (checks.d/C07.json), the number is kept for the human reader of a replay only.
	if i := strings.Index(err.Error(), "message type"); i >= 0 {
		num := ""
		for _, r := range err.Error()[i:] {
			if r >= '0' && r <= '9' {
				num += string(r)
			} else if num != "" {
				break
			}
		}
		if num != "" {
			return "badtype:" + num
		}
	}
	if err == io.EOF {
		return "eof"
	}
	return "other"
}

const blockAfter = 8 * time.Second

type rres struct {
	n   int
	err error
}

// timedRead runs one Read with a watchdog; ok=false means it is still blocked.
func timedRead(c io.Reader, b []byte) (rres, bool) {
	ch := make(chan rres, 1)
	go func() {
		n, err := c.Read(b)
		ch <- rres{n, err}
	}()
	select {
	case r := <-ch:
		return r, true
	case <-time.After(blockAfter):
		return rres{}, false
	}
}

// afterRead is the C07 oracle on one Read result, computed on the real connection only.
func (e *wsEngine) afterRead(me *side, buflen int, got []byte, r rres, o *Out) {
	o.Count("oracle:C07:read")
	if r.n < 0 || r.n > buflen {
		o.Fail("C07", "read-n-out-of-range", fmt.Sprintf("n=%d len(b)=%d", r.n, buflen))
		return
	}
	if r.n == 0 && r.err == nil && buflen > 0 {
		o.Fail("C07", "read-zero-nil", fmt.Sprintf("Read returned (0, nil) with len(b)=%d", buflen))
	}
	if r.n > 0 {
		if me.recv+r.n > len(me.sent) || string(me.sent[me.recv:me.recv+r.n]) != string(got[:r.n]) {
			o.Fail("C07", "stream", fmt.Sprintf("bytes returned at offset %d (n=%d) are not the bytes written at that offset (written so far %d)", me.recv, r.n, len(me.sent)))
		}
		me.recv += r.n
		if r.n < buflen {
			o.Count("read:short")
		}
	}
	c := class(r.err)
	if me.sawClose && c != "closed" && c != "opclosed" {
		o.Fail("C07", "close-not-sticky", "a Read after the closed error returned "+c)
	}
	if c == "closed" {
		me.sawClose = true
		if me.allBin && me.recv != len(me.sent) {
			o.Fail("C07", "close-before-data", fmt.Sprintf("closed reported with %d of %d written bytes delivered", me.recv, len(me.sent)))
		}
	}
	if c == "closeerr" || c == "eof" {
		o.Fail("C07", "close-class", "Read surfaced "+c+" instead of net.ErrClosed")
	}
}

func (e *wsEngine) kill() {
	e.dead = true
	e.teardown()
}

func (e *wsEngine) Step(ws []string, o *Out) string {
	if strings.HasPrefix(ws[0], "t.") {
		return e.tunnelStep(ws, o)
	}
	if e.dead {
		return "dead"
	}
	if ws[0] == "open" {
		if len(ws) != 3 {
			return "bad-op"
		}
		if err := e.open(Atoi(ws[1]), Atoi(ws[2])); err != nil {
			panic("open: " + err.Error())
		}
		return "ok"
	}
	if len(ws) < 2 || (ws[1] != "a" && ws[1] != "b") || !e.opened {
		return "bad-op"
	}
	me, peer := e.get(ws[1])
	switch ws[0] {
	case "wmsg":
		if len(ws) != 3 {
			return "bad-op"
		}
		p := unhexB(ws[2])
		if me.csent || peer.lclosed {
			return "bad-op"
		}
		type wres struct {
			n   int
			err error
		}
		ch := make(chan wres, 1)
		go func() {
			n, err := me.conn.Write(p)
			ch <- wres{n, err}
		}()
		var r wres
		select {
		case r = <-ch:
		case <-time.After(20 * time.Second):
			o.Fail("C07", "write-hang", "Write did not return within 20 s")
			e.kill()
			return "w hang"
		}
		o.Count("oracle:C07:write")
		if !me.lclosed && !me.sawClose {
			if r.err != nil || r.n != len(p) {
				o.Fail("C07", "write-n", fmt.Sprintf("Write of %d bytes on an open connection returned (%d, %v)", len(p), r.n, r.err))
			}
		}
		if r.err == nil {
			peer.sent = append(peer.sent, p...)
			peer.bounds[len(peer.sent)] = true
			o.Add("bytes:written", len(p))
		}
		return "w " + strconv.Itoa(r.n) + " " + class(r.err)
	case "rawmsg":
		if len(ws) != 4 {
			return "bad-op"
		}
		p := unhexB(ws[3])
		if me.csent || peer.lclosed || me.lclosed || me.sawClose {
			return "bad-op"
		}
		var err error
		switch ws[2] {
		case "text":
			err = me.raw.WriteMessage(gws.TextMessage, p)
			peer.allBin = false
		case "binary":
			err = me.raw.WriteMessage(gws.BinaryMessage, p)
			peer.sent = append(peer.sent, p...)
			peer.bounds[len(peer.sent)] = true
		case "ping":
			err = me.raw.WriteControl(gws.PingMessage, p, time.Now().Add(5*time.Second))
		case "pong":
			err = me.raw.WriteControl(gws.PongMessage, p, time.Now().Add(5*time.Second))
		case "close":
			err = me.raw.WriteControl(gws.CloseMessage, gws.FormatCloseMessage(gws.CloseNormalClosure, string(p)), time.Now().Add(5*time.Second))
			me.csent = true
		default:
			return "bad-op"
		}
		if err != nil {
			return "err " + class(err)
		}
		return "ok"
	case "read":
		if len(ws) != 3 {
			return "bad-op"
		}
		if me.csent {
			return "bad-op"
		}
		n := Atoi(ws[2])
		b := make([]byte, n)
		r, ok := timedRead(me.conn, b)
		if !ok {
			e.kill()
			return "r - block"
		}
		e.afterRead(me, n, b, r, o)
		if r.n > 0 && r.err == nil {
			return "r " + hexB(b[:r.n]) + " ok"
		}
		if r.n == 0 && r.err == nil {
			return "r - zero"
		}
		if r.n > 0 {
			return "r " + hexB(b[:r.n]) + " " + class(r.err)
		}
		return "r - " + class(r.err)
	case "readn":
		if len(ws) != 4 {
			return "bad-op"
		}
		buf, total := Atoi(ws[2]), Atoi(ws[3])
		if me.csent || buf == 0 {
			return "bad-op"
		}
		b := make([]byte, buf)
		var acc []byte
		for len(acc) < total {
			k := buf
			if total-len(acc) < k {
				k = total - len(acc)
			}
			r, ok := timedRead(me.conn, b[:k])
			if !ok {
				e.kill()
				return "rn " + hexB(acc) + " block"
			}
			e.afterRead(me, k, b, r, o)
			if r.n > 0 {
				acc = append(acc, b[:r.n]...)
			}
			if r.err != nil {
				return "rn " + hexB(acc) + " " + class(r.err)
			}
			if r.n == 0 {
				return "rn " + hexB(acc) + " zero"
			}
		}
		return "rn " + hexB(acc) + " ok"
	case "rawread":
		if me.csent {
			return "bad-op"
		}
		if !me.bounds[me.recv] {
			return "bad-op" // inside a message: ReadMessage would discard its rest
		}
		type mres struct {
			ty  int
			p   []byte
			err error
		}
		ch := make(chan mres, 1)
		go func() {
			ty, p, err := me.raw.ReadMessage()
			ch <- mres{ty, p, err}
		}()
		select {
		case r := <-ch:
			if r.err != nil {
				if class(r.err) == "closeerr" {
					me.sawClose = true
				}
				return "raw - " + class(r.err)
			}
			if r.ty == gws.BinaryMessage {
				// C07 write clause seen from the wire: the message is exactly one Write
				if me.allBin {
					end := me.recv + len(r.p)
					if end > len(me.sent) || string(me.sent[me.recv:end]) != string(r.p) || !me.bounds[end] {
						o.Fail("C07", "write-framing", fmt.Sprintf("raw message of %d bytes at offset %d is not one written message", len(r.p), me.recv))
					}
				}
				me.recv += len(r.p)
			} else if me.allBin {
				o.Fail("C07", "write-type", fmt.Sprintf("Conn.Write produced a message of type %d", r.ty))
			}
			return "raw " + strconv.Itoa(r.ty) + " " + hexB(r.p)
		case <-time.After(blockAfter):
			e.kill()
			return "raw - block"
		}
	case "close":
		if me.lclosed {
			return "ok"
		}
		_ = me.conn.Close()
		me.lclosed = true
		return "ok"
	}
	return "bad-op"
}

// ---------------------------------------------------------------- generator

// simDir mirrors, for the generator only, what is queued in one direction so that generated
// reads never block and buffers can be sized.
type simFrame struct {
	ty   int // 1 text, 2 binary, 8 close
	n    int
	wire int
}

type simDir struct {
	q       []simFrame
	cur     int // rest of the current message, -1 = no reader
	closed  bool
	wireMax int
}

func (d *simDir) wire() int {
	t := 0
	for _, f := range d.q {
		t += f.wire
	}
	if d.cur > 0 {
		t += d.cur + 14
	}
	return t
}

func (d *simDir) push(ty, n int) {
	d.q = append(d.q, simFrame{ty, n, n + 14})
	if w := d.wire(); w > d.wireMax {
		d.wireMax = w
	}
}

// dataAvail is the number of stream bytes before the next terminal/text event.
func (d *simDir) dataAvail() int {
	t := 0
	if d.cur > 0 {
		t = d.cur
	}
	for _, f := range d.q {
		if f.ty == 9 {
			continue
		}
		if f.ty != 2 {
			break
		}
		t += f.n
	}
	return t
}

// pingQueued: a ping the reader has not processed yet.  The peer of the reader must not close
// before it is processed: the reader would answer with a pong to a closed socket, get RST, and
// its next Read would fail with ECONNRESET instead of the abnormal closure (TCP timing, not
// modelled).
func (d *simDir) pingQueued() bool {
	for _, f := range d.q {
		if f.ty == 9 {
			return true
		}
	}
	return false
}

// canRead: a Read returns without blocking.
func (d *simDir) canRead() bool {
	if d.closed || d.cur > 0 {
		return true
	}
	for _, f := range d.q {
		if f.ty == 9 {
			continue
		}
		if f.ty != 2 || f.n > 0 {
			return true
		}
	}
	return false
}

// read mirrors Conn.Read with the full choice; returns bytes delivered.
func (d *simDir) read(buf int) int {
	if d.cur > 0 {
		n := min(buf, d.cur)
		d.cur -= n
		return n
	}
	d.cur = -1
	if d.closed {
		return 0
	}
	for len(d.q) > 0 {
		f := d.q[0]
		d.q = d.q[1:]
		switch {
		case f.ty == 9:
			continue
		case f.ty == 8:
			d.closed = true
			return 0
		case f.ty != 2:
			return 0
		case f.n == 0:
			continue
		default:
			if buf == 0 {
				d.cur = f.n
				return 0
			}
			n := min(buf, f.n)
			d.cur = f.n - n
			return n
		}
	}
	return 0
}

func randBytes(r *rand.Rand, n int) []byte {
	b := make([]byte, n)
	// cheap, position-dependent content so that dropped/duplicated/reordered bytes show
	x := r.Uint32()
	for i := range b {
		x = x*1664525 + 1013904223
		b[i] = byte(x >> 24)
	}
	return b
}

var smallSizes = []int{0, 0, 1, 1, 2, 3, 5, 7, 8, 16, 31, 64, 100, 125, 126, 127, 200, 255, 256, 500, 1000}
var midSizes = []int{4000, 4082, 4090, 4096, 4097, 5000, 8192, 10000, 16384, 40000, 65535, 65536, 65537, 70000}
var bigSizes = []int{131072, 200000, 300001, 524288, 1 << 20}
var bufSizes = []int{1, 1, 2, 3, 4, 7, 8, 16, 64, 100, 512, 1000, 4096, 8192, 32768, 65536}

func pickSize(r *rand.Rand, budget *int, allowBig bool) int {
	var n int
	switch k := r.Intn(100); {
	case k < 70:
		n = Pick(r, smallSizes)
	case k < 96 || !allowBig:
		n = Pick(r, midSizes)
	default:
		n = Pick(r, bigSizes)
	}
	if n > *budget {
		n = Pick(r, smallSizes)
	}
	*budget -= n
	return n
}

func sideName(i int) string { return [2]string{"a", "b"}[i] }

// Gen writes n cases.  Three families: det (single `read` ops, predicted exactly), std
// (production gorilla configuration, stream-level ops), and rarely a tunnel case.
func (e *wsEngine) Gen(r *rand.Rand, n int, tier string, w *bufio.Writer) {
	for c := 0; c < n; c++ {
		fmt.Fprintf(w, "case ws-%d\n", c)
		k := r.Intn(100)
		switch {
		case k < 3:
			genTunnel(r, tier, w)
		case k < 63:
			genDet(r, tier, w)
		default:
			genStd(r, tier, w)
		}
	}
}

// genDet: writes and single reads in both directions; the buffer sizes of `open` are computed
// from the generated ops so that every pending frame fits gorilla's read buffer.
func genDet(r *rand.Rand, tier string, w *bufio.Writer) {
	var ops []string
	dir := [2]*simDir{{cur: -1}, {cur: -1}} // dir[i]: towards side i
	lclosed := [2]bool{}
	csent := [2]bool{}
	budget := 300000
	if tier == "thorough" {
		budget = 3 << 20
	}
	maxMsg := 0
	steps := 6 + r.Intn(30)
	reads := 0
	for s := 0; s < steps; s++ {
		x := r.Intn(2)
		y := 1 - x
		switch k := r.Intn(100); {
		case k < 38: // write x -> y
			if csent[x] || lclosed[y] || lclosed[x] || dir[x].closed {
				continue
			}
			n := pickSize(r, &budget, r.Intn(40) == 0)
			if n > maxMsg {
				maxMsg = n
			}
			ops = append(ops, "wmsg "+sideName(x)+" "+hexB(randBytes(r, n)))
			dir[y].push(2, n)
		case k < 44: // raw message
			if csent[x] || lclosed[y] || lclosed[x] || dir[x].closed {
				continue
			}
			switch r.Intn(6) {
			case 0:
				ops = append(ops, "rawmsg "+sideName(x)+" text "+hexB(randBytes(r, r.Intn(20))))
				dir[y].push(1, 0)
			case 1:
				ops = append(ops, "rawmsg "+sideName(x)+" binary -")
				dir[y].push(2, 0)
			case 2:
				n := Pick(r, smallSizes)
				ops = append(ops, "rawmsg "+sideName(x)+" binary "+hexB(randBytes(r, n)))
				dir[y].push(2, n)
			case 3:
				ops = append(ops, "rawmsg "+sideName(x)+" ping "+hexB(randBytes(r, r.Intn(10))))
				dir[y].q = append(dir[y].q, simFrame{9, 0, 140}) // wire bytes only (plus the pong back)
				dir[x].q = append(dir[x].q, simFrame{2, 0, 140})
			case 4:
				ops = append(ops, "rawmsg "+sideName(x)+" pong -")
				dir[y].q = append(dir[y].q, simFrame{2, 0, 140})
			case 5:
				if r.Intn(3) == 0 {
					ops = append(ops, "rawmsg "+sideName(x)+" close -")
					dir[y].push(8, 0)
					csent[x] = true
				}
			}
		case k < 92: // read on x
			if csent[x] || !dir[x].canRead() {
				continue
			}
			if lclosed[x] && dir[x].wire() > 0 {
				continue // gorilla may still hold buffered frames after a local close
			}
			buf := Pick(r, bufSizes)
			if r.Intn(50) == 0 {
				buf = 0
			}
			// keep the number of reads bounded: small buffers only when little is pending
			if av := dir[x].dataAvail(); buf > 0 && av/buf > 40 {
				buf = av/40 + 1
			}
			rep := 1 + r.Intn(4)
			for i := 0; i < rep && dir[x].canRead() && reads < 400; i++ {
				ops = append(ops, "read "+sideName(x)+" "+strconv.Itoa(buf))
				if lclosed[x] {
					reads++
					continue
				}
				dir[x].read(buf)
				reads++
			}
		case k < 96: // rawread at a message boundary
			if csent[x] || lclosed[x] || dir[x].cur > 0 || dir[x].closed || len(dir[x].q) == 0 {
				continue
			}
			f := dir[x].q[0]
			if f.wire == 140 {
				continue
			}
			dir[x].q = dir[x].q[1:]
			dir[x].cur = -1
			if f.ty == 8 {
				dir[x].closed = true
			}
			ops = append(ops, "rawread "+sideName(x))
		default: // close x
			if lclosed[x] || csent[x] || s < steps/2 || dir[y].pingQueued() {
				continue
			}
			ops = append(ops, "close "+sideName(x))
			lclosed[x] = true
			dir[y].push(8, 0)
		}
	}
	// drain what is deliverable, then (sometimes) close and observe it on the peer
	for x := 0; x < 2; x++ {
		for i := 0; i < 60 && dir[x].canRead() && !csent[x] && !(lclosed[x] && dir[x].wire() > 0) && !dir[x].closed && !lclosed[x]; i++ {
			buf := Pick(r, bufSizes)
			if av := dir[x].dataAvail(); av/buf > 20 {
				buf = av/20 + 1
			}
			ops = append(ops, "read "+sideName(x)+" "+strconv.Itoa(buf))
			dir[x].read(buf)
		}
	}
	if r.Intn(2) == 0 {
		x := r.Intn(2)
		y := 1 - x
		if !lclosed[x] && !csent[x] && !csent[y] && !lclosed[y] && !dir[y].canRead() && !dir[y].pingQueued() {
			ops = append(ops, "close "+sideName(x), "read "+sideName(y)+" "+strconv.Itoa(Pick(r, bufSizes)+1), "read "+sideName(y)+" 8")
			if dir[x].wire() == 0 {
				ops = append(ops, "read "+sideName(x)+" 16", "wmsg "+sideName(x)+" 00")
			}
		}
	}
	need := max(dir[0].wireMax, dir[1].wireMax) + 1024
	rb := 4096
	for rb < need {
		rb *= 2
	}
	wb := 4096
	for wb < maxMsg+64 {
		wb *= 2
	}
	fmt.Fprintf(w, "open %d %d\n", rb, wb)
	for _, l := range ops {
		fmt.Fprintln(w, l)
	}
}

// genStd: piko's production gorilla configuration; messages up to 1 MiB, stream reads.
func genStd(r *rand.Rand, tier string, w *bufio.Writer) {
	fmt.Fprintln(w, "open 0 0")
	budget := 400000
	if r.Intn(12) == 0 || tier == "thorough" {
		budget = 2500000
	}
	pend := [2]int{} // stream bytes pending towards side i
	msgs := [2]int{}
	steps := 4 + r.Intn(16)
	if budget > 2000000 {
		// one 1 MiB message (fragmented into ~257 frames on the client side), read back in pieces
		x := r.Intn(2)
		fmt.Fprintf(w, "wmsg %s %s\n", sideName(x), hexB(randBytes(r, 1<<20)))
		budget -= 1 << 20
		pend[1-x] += 1 << 20
		msgs[1-x]++
	}
	for s := 0; s < steps; s++ {
		x := r.Intn(2)
		y := 1 - x
		if r.Intn(100) < 55 {
			n := pickSize(r, &budget, true)
			fmt.Fprintf(w, "wmsg %s %s\n", sideName(x), hexB(randBytes(r, n)))
			pend[y] += n
			msgs[y]++
		} else if pend[x] > 0 {
			total := 1 + r.Intn(pend[x])
			if r.Intn(3) == 0 {
				total = pend[x]
			}
			buf := Pick(r, bufSizes)
			if total/buf > 3000 {
				buf = total/3000 + 1
			}
			fmt.Fprintf(w, "readn %s %d %d\n", sideName(x), buf, total)
			pend[x] -= total
		} else if msgs[x] > 0 && r.Intn(4) == 0 {
			// nothing pending: the next message boundary is clean, look at the raw framing
			n := pickSize(r, &budget, false)
			fmt.Fprintf(w, "wmsg %s %s\n", sideName(y), hexB(randBytes(r, n)))
			fmt.Fprintf(w, "rawread %s\n", sideName(x))
		}
	}
	for x := 0; x < 2; x++ {
		if pend[x] > 0 {
			buf := Pick(r, bufSizes)
			if pend[x]/buf > 3000 {
				buf = pend[x]/3000 + 1
			}
			fmt.Fprintf(w, "readn %s %d %d\n", sideName(x), buf, pend[x])
		}
	}
	x := r.Intn(2)
	y := 1 - x
	switch r.Intn(3) {
	case 0:
		// close with data still queued for the peer: the data is delivered first, then closed
		n := Pick(r, smallSizes) + 1
		fmt.Fprintf(w, "wmsg %s %s\nclose %s\nreadn %s %d %d\nread %s 64\n", sideName(x), hexB(randBytes(r, n)), sideName(x),
			sideName(y), Pick(r, bufSizes), n+5, sideName(y))
	case 1:
		fmt.Fprintf(w, "close %s\nread %s 32\nread %s 1\n", sideName(x), sideName(y), sideName(y))
	}
}
