package ws

// Tunnel tier of C07 (Go-side oracle only; the model driver prints `skip` for every `t.*` op).
//
// A real two-node cluster (pikotest/cluster: server.Server with proxy, upstream, admin and
// gossip listeners on loopback) is started once per process.  `t.run <topo> <seed> <conns>
// <maxbytes>` opens <conns> tunnelled connections concurrently and, on each, sends a random
// payload with a random chunking in BOTH directions at the same time while the other end
// reads with random buffer sizes; then closes one end.
//
//	d1  client.Dialer -> node0 proxy -> yamux -> client.Upstream listener (connected to node0)
//	d2  client.Dialer -> node1 proxy -> node0 proxy -> yamux -> listener (cross-node hop)
//	f1  TCP client -> forward.Forwarder -> client.Dialer -> node0 -> listener -> agent tcpproxy.Server -> TCP sink
//	f2  the same through node1 -> node0
//
// Oracle (ORACLE FAIL C07 tunnel-*): bytes received == bytes sent (length and sha256) in both
// directions; after closing either end the other end's Read fails (EOF / closed) within 2 s;
// after all connections are closed the goroutine count returns to the level measured before
// they were opened (no leaked relay legs).  Half of the far ends do NOT close after seeing
// end-of-stream (an upstream that ignores EOF, e.g. a push-only feed): the legs must be released all
// the same (goroutine level; a later write on the far end fails) - seed C07c.

import (
	"bufio"
	"context"
	"crypto/sha256"
	"fmt"
	"io"
	"math/rand"
	"net"
	"net/url"
	"os"
	"runtime"
	"runtime/pprof"
	"sync"
	"sync/atomic"
	"time"

	agentconfig "github.com/andydunstall/piko/agent/config"
	"github.com/andydunstall/piko/agent/tcpproxy"
	"github.com/andydunstall/piko/client"
	"github.com/andydunstall/piko/forward"
	"github.com/andydunstall/piko/pikotest/cluster"
	clusterconfig "github.com/andydunstall/piko/pikotest/cluster/config"
	"github.com/andydunstall/piko/pkg/log"

	. "verifharness/core"
)

type tunnel struct {
	mgr *cluster.Manager
	seq int
}

var epSeq atomic.Int64

func (e *wsEngine) cluster() *tunnel {
	if e.tun == nil {
		t := &tunnel{mgr: cluster.NewManager()}
		t.mgr.Update(&clusterconfig.Config{Nodes: 2})
		e.tun = t
	}
	return e.tun
}

func (e *wsEngine) tunnelStep(ws []string, o *Out) string {
	if ws[0] != "t.run" || len(ws) != 5 {
		return "skip"
	}
	topo := ws[1]
	seed := int64(Atoi(ws[2]))
	conns, maxBytes := Atoi(ws[3]), Atoi(ws[4])
	done := make(chan string, 1)
	go func() {
		defer func() {
			if r := recover(); r != nil {
				done <- fmt.Sprintf("panic: %v", r)
			}
		}()
		done <- e.cluster().run(topo, seed, conns, maxBytes, o)
	}()
	select {
	case msg := <-done:
		if msg != "" {
			o.Fail("C07", "tunnel-setup", topo+": "+msg)
		}
	case <-time.After(90 * time.Second):
		o.Fail("C07", "tunnel-hang", topo+": the tunnel run did not finish within 90 s")
	}
	o.Count("tunnel:" + topo)
	return "skip"
}

// goroutines samples the goroutine count until it is stable-ish and returns the maximum seen
// (background gossip goroutines come and go).
func goroutineLevel() int {
	m := 0
	for i := 0; i < 25; i++ {
		if n := runtime.NumGoroutine(); n > m {
			m = n
		}
		time.Sleep(4 * time.Millisecond)
	}
	return m
}

type pair struct {
	a, b net.Conn // a: dialing end, b: upstream end
}

func (t *tunnel) run(topo string, seed int64, conns, maxBytes int, o *Out) string {
	r := rand.New(rand.NewSource(seed))
	nodes := t.mgr.Nodes()
	if len(nodes) < 2 {
		return "cluster has fewer than 2 nodes"
	}
	ep := fmt.Sprintf("c07-%d", epSeq.Add(1))
	ctx, cancel := context.WithTimeout(context.Background(), 60*time.Second)
	defer cancel()

	up := client.Upstream{URL: &url.URL{Scheme: "http", Host: nodes[0].UpstreamAddr()}}
	ln, err := up.Listen(ctx, ep)
	if err != nil {
		return "listen: " + err.Error()
	}
	defer ln.Shutdown()
	dialNode := nodes[0]
	if topo == "d2" || topo == "f2" {
		dialNode = nodes[1]
		dl := time.Now().Add(15 * time.Second)
		for {
			if _, ok := nodes[1].ClusterState().LookupEndpoint(ep); ok {
				break
			}
			if time.Now().After(dl) {
				return "node1 never learned the endpoint"
			}
			time.Sleep(5 * time.Millisecond)
		}
	}
	dialer := &client.Dialer{URL: &url.URL{Scheme: "http", Host: dialNode.ProxyAddr()}}

	// upstream end: either the accepted yamux stream itself, or a TCP sink behind the agent's
	// tcpproxy.Server
	accept := func() (net.Conn, error) { return ln.Accept() }
	dial := func() (net.Conn, error) { return dialer.Dial(ctx, ep) }
	var cleanup []func()
	defer func() {
		for i := len(cleanup) - 1; i >= 0; i-- {
			cleanup[i]()
		}
	}()
	if topo == "f1" || topo == "f2" {
		sink, err := ListenRetry("tcp", "127.0.0.1:0")
		if err != nil {
			return err.Error()
		}
		cleanup = append(cleanup, func() { sink.Close() })
		agent := tcpproxy.NewServer(agentconfig.ListenerConfig{
			EndpointID: ep, Addr: sink.Addr().String(), Protocol: agentconfig.ListenerProtocolTCP,
			Timeout: 10 * time.Second,
		}, log.NewNopLogger())
		go func() { _ = agent.Serve(ln) }()
		cleanup = append(cleanup, func() { agent.Close() })
		front, err := ListenRetry("tcp", "127.0.0.1:0")
		if err != nil {
			return err.Error()
		}
		fw := forward.NewForwarder(ep, dialer, log.NewNopLogger())
		go func() { _ = fw.Forward(front) }()
		cleanup = append(cleanup, func() { fw.Close() })
		accept = func() (net.Conn, error) { return sink.Accept() }
		dial = func() (net.Conn, error) { return net.Dial("tcp", front.Addr().String()) }
	}

	// open the connections one at a time; a random nonce sent through the tunnel pairs the
	// dialing end with the accepted end.  Establishing a tunnel may fail while the freshly
	// started cluster settles (membership flaps under CPU load) - that is availability, not
	// C07 - so establishment is retried; a stale connection of an abandoned attempt is
	// recognised by its nonce and discarded.
	type ar struct {
		c   net.Conn
		err error
	}
	accCh := make(chan ar, 16)
	stopAcc := make(chan struct{})
	defer close(stopAcc)
	go func() {
		for {
			c, err := accept()
			select {
			case accCh <- ar{c, err}:
			case <-stopAcc:
				if c != nil {
					c.Close()
				}
				return
			}
			if err != nil {
				return
			}
		}
	}()
	base := goroutineLevel() // includes the accept loop above, excludes every tunnelled connection
	var pairs []pair
	for i := 0; i < conns; i++ {
		var pr *pair
		var lastErr string
		for attempt := 0; attempt < 8 && pr == nil; attempt++ {
			nonce := make([]byte, 8)
			r.Read(nonce)
			a, err := dial()
			if err != nil {
				lastErr = "dial: " + err.Error()
				time.Sleep(200 * time.Millisecond)
				continue
			}
			_ = a.SetWriteDeadline(time.Now().Add(3 * time.Second))
			if _, err := a.Write(nonce); err != nil {
				lastErr = "nonce write: " + err.Error()
				a.Close()
				continue
			}
			_ = a.SetWriteDeadline(time.Time{})
			deadline := time.After(4 * time.Second)
		wait:
			for {
				select {
				case x := <-accCh:
					if x.err != nil {
						return "accept: " + x.err.Error()
					}
					got := make([]byte, 8)
					_ = x.c.SetReadDeadline(time.Now().Add(3 * time.Second))
					_, err := io.ReadFull(x.c, got)
					_ = x.c.SetReadDeadline(time.Time{})
					if err == nil && string(got) == string(nonce) {
						pr = &pair{a, x.c}
						break wait
					}
					x.c.Close() // stale or broken attempt
				case <-deadline:
					lastErr = "no connection reached the upstream end within 4 s"
					a.Close()
					break wait
				}
			}
			if pr == nil {
				o.Count("tunnel:establish-retry")
			}
		}
		if pr == nil {
			return "could not establish connection " + fmt.Sprint(i) + ": " + lastErr
		}
		pairs = append(pairs, *pr)
	}

	var wg sync.WaitGroup
	var mu sync.Mutex
	type heldConn struct {
		c     net.Conn
		i     int
		name  string
		write bool
	}
	var held []heldConn
	fail := func(clause, detail string) {
		mu.Lock()
		o.Fail("C07", clause, detail)
		mu.Unlock()
	}
	// single writes up to 1 MiB: one Write on a websocket leg is one message, whatever its size
	chunkSizes := []int{1, 2, 7, 64, 500, 1000, 4096, 4097, 16384, 32768, 65536, 100000, 131073, 200000, 1 << 20}
	bufSizes := []int{1, 3, 64, 512, 4096, 8192, 32768, 65536}
	send := func(c net.Conn, data []byte, rr *rand.Rand) error {
		for len(data) > 0 {
			k := chunkSizes[rr.Intn(len(chunkSizes))]
			if len(data) < 4096 && rr.Intn(4) == 0 {
				k = 1 + rr.Intn(8)
			}
			if k > len(data) {
				k = len(data)
			}
			n, err := c.Write(data[:k])
			if err != nil {
				return err
			}
			if n != k {
				return fmt.Errorf("short write %d of %d", n, k)
			}
			data = data[k:]
		}
		return nil
	}
	recv := func(c net.Conn, want int, rr *rand.Rand) ([]byte, error) {
		h := make([]byte, 0, want)
		for len(h) < want {
			k := bufSizes[rr.Intn(len(bufSizes))]
			if want > 200000 && k < 512 {
				k = 4096
			}
			b := make([]byte, k)
			n, err := c.Read(b)
			if n == 0 && err == nil {
				return h, fmt.Errorf("Read returned (0, nil)")
			}
			h = append(h, b[:n]...)
			if err != nil {
				return h, err
			}
		}
		return h, nil
	}
	for i, p := range pairs {
		sa, sb := r.Intn(maxBytes+1), r.Intn(maxBytes+1)
		if r.Intn(5) == 0 {
			sa = 0
		}
		da, db := randBytes(r, sa), randBytes(r, sb)
		seeds := [4]int64{r.Int63(), r.Int63(), r.Int63(), r.Int63()}
		closeA := r.Intn(2) == 0
		// leave the far end open after it saw end-of-stream?  Only where the far end is a plain TCP
		// connection of the agent's tcpproxy / the forwarder (f1, f2): those relays close their TCP leg
		// outright.  Where the far end is a yamux stream or the dialer's websocket (d1, d2) the release
		// of the server's leg waits for the far end's own close, bounded by yamux's StreamCloseTimeout
		// (a locally closed yamux stream stays readable) and, across nodes, by httputil.ReverseProxy's
		// half-close propagation - observation O8, library semantics.
		hold := r.Intn(2) == 0 && (topo == "f1" || topo == "f2")
		holdWrite := hold
		i, p := i, p
		_ = p.a.SetDeadline(time.Now().Add(40 * time.Second))
		_ = p.b.SetDeadline(time.Now().Add(40 * time.Second))
		wg.Add(1)
		go func() {
			defer wg.Done()
			var g sync.WaitGroup
			g.Add(4)
			check := func(dirn string, got []byte, err error, want []byte) {
				if err != nil {
					fail("tunnel-stream", fmt.Sprintf("%s conn %d %s: read error after %d of %d bytes: %v", topo, i, dirn, len(got), len(want), err))
					return
				}
				if len(got) != len(want) || sha256.Sum256(got) != sha256.Sum256(want) {
					fail("tunnel-stream", fmt.Sprintf("%s conn %d %s: received %d bytes sha %x, sent %d bytes sha %x", topo, i, dirn,
						len(got), sha256.Sum256(got), len(want), sha256.Sum256(want)))
				}
			}
			go func() {
				defer g.Done()
				if err := send(p.a, da, rand.New(rand.NewSource(seeds[0]))); err != nil {
					fail("tunnel-write", fmt.Sprintf("%s conn %d a->b: %v", topo, i, err))
				}
			}()
			go func() {
				defer g.Done()
				if err := send(p.b, db, rand.New(rand.NewSource(seeds[1]))); err != nil {
					fail("tunnel-write", fmt.Sprintf("%s conn %d b->a: %v", topo, i, err))
				}
			}()
			go func() {
				defer g.Done()
				got, err := recv(p.b, len(da), rand.New(rand.NewSource(seeds[2])))
				check("a->b", got, err, da)
			}()
			go func() {
				defer g.Done()
				got, err := recv(p.a, len(db), rand.New(rand.NewSource(seeds[3])))
				check("b->a", got, err, db)
			}()
			g.Wait()
			// close propagation
			closer, other, name := p.a, p.b, "a"
			if !closeA {
				closer, other, name = p.b, p.a, "b"
			}
			t0 := time.Now()
			_ = closer.Close()
			_ = other.SetReadDeadline(time.Now().Add(2 * time.Second))
			n, err := other.Read(make([]byte, 16))
			if err == nil || n != 0 {
				fail("tunnel-close", fmt.Sprintf("%s conn %d: after closing end %s the other end read (%d, %v)", topo, i, name, n, err))
			} else if ne, ok := err.(net.Error); ok && ne.Timeout() {
				fail("tunnel-close", fmt.Sprintf("%s conn %d: after closing end %s the other end saw no end-of-stream within %v", topo, i, name, time.Since(t0).Round(time.Millisecond)))
			}
			if hold && err != nil {
				// the end that saw end-of-stream does NOT close: both legs must be released anyway
				mu.Lock()
				held = append(held, heldConn{other, i, name, holdWrite})
				mu.Unlock()
				return
			}
			_ = other.Close()
		}()
	}
	wg.Wait()
	o.Add("tunnel:conns", len(pairs))
	o.Add("tunnel:held", len(held))
	defer func() {
		for _, h := range held {
			_ = h.c.Close()
		}
	}()

	// no leaked legs: the goroutine count returns to the level before the connections
	dl := time.Now().Add(2 * time.Second)
	for {
		n := runtime.NumGoroutine()
		if n <= base {
			break
		}
		if time.Now().After(dl) {
			fail("tunnel-leak", fmt.Sprintf("%s: %d goroutines before the connections, %d two seconds after closing all %d of them (%d far ends saw end-of-stream and were left open)", topo, base, n, len(pairs), len(held)))
			if os.Getenv("VERIF_DEBUG") != "" {
				_ = pprof.Lookup("goroutine").WriteTo(os.Stderr, 1)
			}
			break
		}
		time.Sleep(10 * time.Millisecond)
	}
	// a far end that was left open after seeing end-of-stream must find its leg gone: writes fail
	for _, h := range held {
		if !h.write {
			continue
		}
		_ = h.c.SetWriteDeadline(time.Now().Add(3 * time.Second))
		t0 := time.Now()
		var werr error
		for time.Since(t0) < 2*time.Second && werr == nil {
			_, werr = h.c.Write([]byte{0})
			if werr == nil {
				time.Sleep(20 * time.Millisecond)
			}
		}
		if werr == nil {
			fail("tunnel-close-not-released", fmt.Sprintf("%s conn %d: two seconds after end %s was closed the other end (left open) can still write: its leg was not released", topo, h.i, h.name))
		}
	}
	return ""
}

func genTunnel(r *rand.Rand, tier string, w *bufio.Writer) {
	topo := Pick(r, []string{"d1", "d2", "d1", "d2", "f1", "f2"})
	conns := 1 + r.Intn(4)
	maxBytes := Pick(r, []int{100, 5000, 70000, 300000, 300000, 1200000})
	if tier == "thorough" {
		maxBytes = Pick(r, []int{100, 5000, 70000, 300000, 2 << 20})
	}
	fmt.Fprintf(w, "t.run %s %d %d %d\n", topo, r.Int31(), conns, maxBytes)
}
