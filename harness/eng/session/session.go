// Package session is the correspondence engine for the upstream connection lifecycle (C16):
// a REAL upstream.Server on loopback with a REAL LoadBalancedManager + cluster.State + syncer +
// gossip state, REAL client listeners (client.Upstream.Listen) connecting through a small TCP
// relay owned by the harness (so that a connection can be dropped or reset under the server).
//
// ops (one output line each, printed after the node is quiescent):
//
//	init <auth 0|1> <disableDisconnectOnExpiry 0|1>
//	connect <k> <ep> <tok>      tok: - (no token) | noexp | <T> (token whose exp is >= T ms ahead)
//	close <k>                   Listener.Close  (go-away; the connection stays open)
//	shutdown <k>                Listener.Shutdown (client closes the session)
//	drop <k>                    the relay closes both TCP connections (EOF at the server)
//	reset <k>                   the relay resets the server-side TCP connection (RST)
//	shed                        Server.shedSessions(all)   (export shim)
//	dial <k> <hold 0|1>         what the proxy does: u.Dial(); on ErrGone RemoveConn(u)
//	expire <k>                  wait until the token expiry of k has passed
//	server-shutdown             Server.Shutdown
//	server-shutdown-stuck       Server.Shutdown whose grace period expires (a client stuck in its request header)
//
// output: ok eps=<Endpoints()> local=<cluster local endpoints> gossip=<live endpoint entries>
// sess=<open sessions> log=<exit log lines since the previous op>
package session

import (
	"bufio"
	"context"
	"errors"
	"fmt"
	"io"
	stdlog "log"
	"math/rand"
	"net"
	"net/url"
	"os"
	"sort"
	"strconv"
	"strings"
	"sync"
	"time"

	"github.com/golang-jwt/jwt/v5"
	"go.uber.org/zap"
	"go.uber.org/zap/zapcore"

	. "verifharness/core"

	"github.com/andydunstall/piko/client"
	"github.com/andydunstall/piko/pkg/auth"
	pgossip "github.com/andydunstall/piko/pkg/gossip"
	"github.com/andydunstall/piko/pkg/log"
	"github.com/andydunstall/piko/server/cluster"
	"github.com/andydunstall/piko/server/config"
	sgossip "github.com/andydunstall/piko/server/gossip"
	"github.com/andydunstall/piko/server/upstream"
)

// ---------------------------------------------------------------- capturing logger

type logSink struct {
	mu   sync.Mutex
	msgs []string
}

func (s *logSink) add(m string) {
	s.mu.Lock()
	s.msgs = append(s.msgs, m)
	s.mu.Unlock()
}

func (s *logSink) take() []string {
	s.mu.Lock()
	defer s.mu.Unlock()
	m := s.msgs
	s.msgs = nil
	return m
}

type capLogger struct{ sink *logSink }

func (l capLogger) Subsystem() string               { return "" }
func (l capLogger) WithSubsystem(string) log.Logger { return l }
func (l capLogger) With(...zap.Field) log.Logger    { return l }
func (l capLogger) Debug(string, ...zap.Field)      {}
func (l capLogger) Info(m string, _ ...zap.Field)   { l.rec(m) }
func (l capLogger) Warn(m string, _ ...zap.Field)   { l.rec(m) }
func (l capLogger) Error(m string, _ ...zap.Field)  { l.rec(m) }
func (l capLogger) Sync() error                     { return nil }
func (l capLogger) StdLogger(zapcore.Level) *stdlog.Logger {
	return stdlog.New(io.Discard, "", 0)
}
func (l capLogger) Log(_ zapcore.Level, m string, _ ...zap.Field) { l.rec(m) }
// rec classifies a log message by keyword.  The class is printed (`log=`) for the reader of a replay
// and counted in the statistics; the checks project it out of the comparison - log texts are not
// part of any property and a reworded message must not raise an alarm.
func (l capLogger) rec(m string) {
	lm := strings.ToLower(m)
	switch {
	case strings.Contains(lm, "token expired"):
		l.sink.add("expired")
	case strings.Contains(lm, "unexpected"):
		l.sink.add("unexpected")
	case strings.Contains(lm, "panic"):
		l.sink.add("panic")
	}
}

// ---------------------------------------------------------------- recording manager

// recMgr is the real LoadBalancedManager; it only records which upstream objects were
// added/removed (the harness needs the server-side object of a client to play the proxy).
type recMgr struct {
	*upstream.LoadBalancedManager
	mu      sync.Mutex
	adds    []upstream.Upstream
	removes map[upstream.Upstream]int
}

func (m *recMgr) AddConn(u upstream.Upstream) {
	m.LoadBalancedManager.AddConn(u)
	m.mu.Lock()
	m.adds = append(m.adds, u)
	m.mu.Unlock()
}

func (m *recMgr) RemoveConn(u upstream.Upstream) {
	m.LoadBalancedManager.RemoveConn(u)
	m.mu.Lock()
	m.removes[u]++
	m.mu.Unlock()
}

func (m *recMgr) nAdds() int {
	m.mu.Lock()
	defer m.mu.Unlock()
	return len(m.adds)
}

func (m *recMgr) addAt(i int) upstream.Upstream {
	m.mu.Lock()
	defer m.mu.Unlock()
	return m.adds[i]
}

func (m *recMgr) nRemoves(u upstream.Upstream) int {
	m.mu.Lock()
	defer m.mu.Unlock()
	return m.removes[u]
}

// ---------------------------------------------------------------- TCP relay

type pair struct {
	c, s net.Conn // client-facing, server-facing
	once sync.Once
	mu   sync.Mutex
	who  string    // who ended the pair first: server | client | harness
	at   time.Time // when
}

func (p *pair) end(who string) {
	p.once.Do(func() {
		p.mu.Lock()
		p.who, p.at = who, time.Now()
		p.mu.Unlock()
	})
	_ = p.c.Close()
	_ = p.s.Close()
}

func (p *pair) ended() (string, time.Time) {
	p.mu.Lock()
	defer p.mu.Unlock()
	return p.who, p.at
}

type relay struct {
	ln     net.Listener
	target string
	mu     sync.Mutex
	pairs  []*pair
}

func newRelay(target string) *relay {
	ln := listenLoopback()
	r := &relay{ln: ln, target: target}
	go r.serve()
	return r
}

func (r *relay) serve() {
	for {
		c, err := r.ln.Accept()
		if err != nil {
			return
		}
		s, err := net.DialTimeout("tcp", r.target, time.Second)
		if err != nil {
			_ = c.Close()
			continue
		}
		p := &pair{c: c, s: s}
		r.mu.Lock()
		r.pairs = append(r.pairs, p)
		r.mu.Unlock()
		go func() { _, _ = io.Copy(p.c, p.s); p.end("server") }()
		go func() { _, _ = io.Copy(p.s, p.c); p.end("client") }()
	}
}

func (r *relay) nPairs() int {
	r.mu.Lock()
	defer r.mu.Unlock()
	return len(r.pairs)
}

func (r *relay) last() *pair {
	r.mu.Lock()
	defer r.mu.Unlock()
	if len(r.pairs) == 0 {
		return nil
	}
	return r.pairs[len(r.pairs)-1]
}

func (r *relay) close() {
	_ = r.ln.Close()
	r.mu.Lock()
	ps := r.pairs
	r.mu.Unlock()
	for _, p := range ps {
		p.end("harness")
	}
}

// ---------------------------------------------------------------- engine

type cl struct {
	k       int
	ep      string
	ln      client.Listener
	pr      *pair
	up      upstream.Upstream
	hasExp  bool
	exp     time.Time
	alive   bool // the harness has not ended this connection and nothing in the statement ended it
	goAway  bool
	lazy    bool // removed by the proxy path on ErrGone
	proxyRm int  // RemoveConn calls made by the harness playing the proxy
	held    []net.Conn
}

type sessEngine struct {
	started bool
	cs      *cluster.State
	gs      *pgossip.VState
	mgr     *recMgr
	srv     *upstream.Server
	ln      net.Listener
	rl      *relay
	auth    bool
	disable bool
	key     []byte
	cls     map[int]*cl
	sink    *logSink
	shut    bool
}

// loopIP is this process's own loopback address (all of 127.0.0.0/8 is loopback on Linux): a
// port freed by `server-shutdown` must stay refused, not be picked up by a server of another
// harness process running side by side.
var loopIP = fmt.Sprintf("127.%d.%d.2", 1+(os.Getpid()>>8)%250, 1+os.Getpid()%250)

// listenLoopback opens a TCP listener on an ephemeral loopback port, retrying while the box is
// short of ephemeral ports (many harnesses run side by side).
func listenLoopback() net.Listener {
	var err error
	for i := 0; i < 200; i++ {
		var ln net.Listener
		if ln, err = net.Listen("tcp", loopIP+":0"); err == nil {
			return ln
		}
		time.Sleep(25 * time.Millisecond)
	}
	panic(err)
}

// New returns the engine.
func New() Engine { return &sessEngine{} }

type nopFD struct{}

func (nopFD) Report(string)                 {}
func (nopFD) SuspicionLevel(string) float64 { return 0 }
func (nopFD) Remove(string)                 {}

func (e *sessEngine) Reset() {
	if e.started {
		for _, c := range e.cls {
			for _, h := range c.held {
				_ = h.Close()
			}
			if c.ln != nil {
				_ = c.ln.Shutdown()
			}
		}
		if !e.shut {
			ctx, cancel := context.WithTimeout(context.Background(), time.Second)
			_ = e.srv.Shutdown(ctx)
			cancel()
		}
		e.rl.close()
		_ = e.ln.Close()
	}
	*e = sessEngine{}
}

func (e *sessEngine) init(authOn, disable bool) {
	e.sink = &logSink{}
	lg := capLogger{sink: e.sink}
	e.cs = cluster.NewState(&cluster.Node{ID: "n0", ProxyAddr: "10.0.0.1:8000", AdminAddr: "10.0.0.1:8002"}, log.NewNopLogger())
	sy := sgossip.VNewSyncer(e.cs, log.NewNopLogger())
	e.gs = pgossip.VNewClusterState("n0", "", nopFD{}, sy)
	sy.Sync(e.gs)
	e.mgr = &recMgr{LoadBalancedManager: upstream.NewLoadBalancedManager(e.cs, nil), removes: map[upstream.Upstream]int{}}
	e.auth, e.disable = authOn, disable
	e.key = []byte("verif-session-hmac-key")
	var verifier *auth.MultiTenantVerifier
	if authOn {
		verifier = auth.NewMultiTenantVerifier(auth.NewJWTVerifier(&auth.LoadedConfig{
			HMACSecretKey:             e.key,
			DisableDisconnectOnExpiry: disable,
		}), nil)
	}
	e.srv = upstream.NewServer(e.mgr, verifier, nil, e.cs, config.UpstreamConfig{}, lg)
	ln := listenLoopback()
	e.ln = ln
	go func() { _ = e.srv.Serve(ln) }()
	e.rl = newRelay(ln.Addr().String())
	e.cls = map[int]*cl{}
	e.started = true
}

func (e *sessEngine) advertised() map[string]int {
	adv := map[string]int{}
	for _, en := range e.gs.LocalNode().Entries {
		if en.Internal || en.Deleted || !strings.HasPrefix(en.Key, "endpoint:") {
			continue
		}
		n, err := strconv.Atoi(en.Value)
		if err != nil {
			n = -1
		}
		adv[strings.TrimPrefix(en.Key, "endpoint:")] = n
	}
	return adv
}

func (e *sessEngine) state() string {
	return "eps=" + ShowCounts(e.mgr.Endpoints()) +
		" local=" + ShowCounts(e.cs.LocalNode().Endpoints) +
		" gossip=" + ShowCounts(e.advertised()) +
		" sess=" + strconv.Itoa(upstream.VOpenSessions(e.srv))
}

const (
	pollEvery  = 3 * time.Millisecond
	stableFor  = 30 * time.Millisecond
	quiesceMax = 2 * time.Second
	lateBand   = 3 * time.Second // upper band of the expiry close (the task's 700 ms, widened for loaded boxes)
)

// quiesce polls until cond (the completion signal of the op, may be nil) holds and the
// observable state has not changed for stableFor, at most quiesceMax.
func (e *sessEngine) quiesce(cond func() bool) string {
	start := time.Now()
	last, since := "", start
	for {
		st := e.state()
		now := time.Now()
		if st != last {
			last, since = st, now
		}
		if (cond == nil || cond()) && now.Sub(since) >= stableFor {
			return last
		}
		if now.Sub(start) > quiesceMax {
			return last
		}
		time.Sleep(pollEvery)
	}
}

func (e *sessEngine) line(st string) string {
	ms := e.sink.take()
	sort.Strings(ms)
	l := "-"
	if len(ms) > 0 {
		l = strings.Join(ms, ",")
	}
	return "ok " + st + " log=" + l
}

// oracle evaluates C16 directly on the real server at quiescence.
func (e *sessEngine) oracle(o *Out) {
	// a case (e.g. one produced by the shrinker) in which a token's expiry passes without its
	// `expire` op: the harness' bookkeeping of what is open is then not defined; the model
	// comparison still applies, the oracle abstains
	for _, c := range e.cls {
		if c.alive && c.hasExp && !e.disable && time.Now().After(c.exp.Add(-100*time.Millisecond)) {
			o.Count("oracle:C16:abstained-expiry-passed-without-expire-op")
			return
		}
	}
	want := map[string]int{}
	open := 0
	for _, c := range e.cls {
		if c.alive {
			open++
			if !c.lazy {
				want[c.ep]++
			}
		} else if c.up != nil {
			if e.mgr.nRemoves(c.up)-c.proxyRm < 1 {
				o.Fail("C16", "exit-without-removeconn", fmt.Sprintf("k=%d ep=%s", c.k, Hx(c.ep)))
			}
		}
		if c.hasExp && !e.disable && c.pr != nil {
			if who, at := c.pr.ended(); who == "server" && at.Before(c.exp.Add(-100*time.Millisecond)) && c.alive {
				o.Fail("C16", "early-close", fmt.Sprintf("k=%d closed %dms before expiry", c.k, c.exp.Sub(at).Milliseconds()))
			}
		}
	}
	reg := e.mgr.Endpoints()
	if ShowCounts(reg) != ShowCounts(want) {
		o.Fail("C16", "registered-vs-open", "registered="+ShowCounts(reg)+" open-listeners="+ShowCounts(want))
	}
	if loc := e.cs.LocalNode().Endpoints; ShowCounts(loc) != ShowCounts(want) {
		o.Fail("C16", "cluster-vs-open", "cluster-local="+ShowCounts(loc)+" open-listeners="+ShowCounts(want))
	}
	if adv := e.advertised(); ShowCounts(adv) != ShowCounts(want) {
		o.Fail("C16", "advertised-vs-open", "advertised="+ShowCounts(adv)+" open-listeners="+ShowCounts(want))
	}
	if n := upstream.VOpenSessions(e.srv); n != open {
		o.Fail("C16", "leaked-session", fmt.Sprintf("open-sessions=%d open-connections=%d", n, open))
	}
	o.Count("oracle:C16")
}

func (e *sessEngine) token(tok string) (string, bool, time.Time) {
	if tok == "-" {
		return "", false, time.Time{}
	}
	claims := auth.JWTClaims{}
	hasExp := false
	var exp time.Time
	if tok != "noexp" {
		t := Atoi(tok)
		// `exp` is whole seconds (jwt.NumericDate): the first second >= now + T ms
		exp = time.Now().Add(time.Duration(t) * time.Millisecond).Truncate(time.Second).Add(time.Second)
		claims.RegisteredClaims.ExpiresAt = jwt.NewNumericDate(exp)
		hasExp = true
	}
	s, err := jwt.NewWithClaims(jwt.SigningMethodHS256, claims).SignedString(e.key)
	if err != nil {
		panic(err)
	}
	return s, hasExp, exp
}

// endOf is the completion signal of an op that ends connection c: its handler's deferred
// RemoveConn has been called.
func (e *sessEngine) endOf(cs ...*cl) func() bool {
	type w struct {
		c    *cl
		want int
	}
	var ws []w
	for _, c := range cs {
		if c.up != nil {
			ws = append(ws, w{c, e.mgr.nRemoves(c.up) + 1})
		}
	}
	return func() bool {
		for _, x := range ws {
			if e.mgr.nRemoves(x.c.up) < x.want {
				return false
			}
		}
		return true
	}
}

func (e *sessEngine) aliveCls() []*cl {
	var xs []*cl
	for _, c := range e.cls {
		if c.alive {
			xs = append(xs, c)
		}
	}
	return xs
}

func (e *sessEngine) Step(ws []string, o *Out) string {
	if ws[0] == "init" {
		if e.started || len(ws) != 3 {
			return "bad-op"
		}
		e.init(ws[1] == "1", ws[2] == "1")
		return e.line(e.quiesce(nil))
	}
	if !e.started {
		return "bad-op"
	}
	var c *cl
	switch ws[0] {
	case "close", "shutdown", "drop", "reset", "dial", "expire":
		if len(ws) < 2 {
			return "bad-op"
		}
		c = e.cls[Atoi(ws[1])]
		if c == nil {
			return "bad-op"
		}
	}
	switch ws[0] {
	case "connect":
		if len(ws) != 4 {
			return "bad-op"
		}
		k, ep := Atoi(ws[1]), Unhx(ws[2])
		if _, dup := e.cls[k]; dup {
			return "bad-op"
		}
		if e.auth == (ws[3] == "-") {
			// a token on an open port is ignored, no token on a protected port is a 401:
			// both belong to C09; the generator does not produce them
			return "bad-op"
		}
		tok, hasExp, exp := e.token(ws[3])
		nAdds, nPairs := e.mgr.nAdds(), e.rl.nPairs()
		u := client.Upstream{
			URL:                 &url.URL{Scheme: "http", Host: e.rl.ln.Addr().String()},
			Token:               tok,
			MinReconnectBackoff: 20 * time.Millisecond,
			MaxReconnectBackoff: 50 * time.Millisecond,
		}
		to := 10 * time.Second
		if e.shut {
			to = 300 * time.Millisecond
		}
		ctx, cancel := context.WithTimeout(context.Background(), to)
		ln, err := u.Listen(ctx, ep)
		cancel()
		if err != nil {
			st := e.quiesce(nil)
			e.oracle(o)
			return strings.Replace(e.line(st), "ok ", "refused ", 1)
		}
		st := e.quiesce(func() bool { return e.mgr.nAdds() > nAdds })
		nc := &cl{k: k, ep: ep, ln: ln, hasExp: hasExp, exp: exp, alive: true}
		if e.mgr.nAdds() > nAdds {
			nc.up = e.mgr.addAt(nAdds)
		}
		if e.rl.nPairs() > nPairs {
			nc.pr = e.rl.last()
		}
		e.cls[k] = nc
		e.oracle(o)
		return e.line(st)
	case "close":
		_ = c.ln.Close()
		if c.alive {
			c.goAway = true
		}
		st := e.quiesce(nil)
		e.oracle(o)
		return e.line(st)
	case "shutdown":
		cond := e.endOf(c)
		if !c.alive {
			cond = nil
		}
		_ = c.ln.Shutdown()
		c.alive = false
		st := e.quiesce(cond)
		e.oracle(o)
		return e.line(st)
	case "drop", "reset":
		cond := e.endOf(c)
		if !c.alive {
			cond = nil
		}
		if c.pr != nil {
			if ws[0] == "reset" {
				if tc, ok := c.pr.s.(*net.TCPConn); ok {
					_ = tc.SetLinger(0)
				}
			}
			c.pr.end("harness")
		}
		c.alive = false
		st := e.quiesce(cond)
		e.oracle(o)
		return e.line(st)
	case "shed":
		al := e.aliveCls()
		cond := e.endOf(al...)
		upstream.VSessionShed(e.srv, 1<<20)
		for _, x := range al {
			x.alive = false
		}
		st := e.quiesce(cond)
		e.oracle(o)
		return e.line(st)
	case "server-shutdown", "server-shutdown-stuck":
		al := e.aliveCls()
		cond := e.endOf(al...)
		grace := 2 * time.Second
		if ws[0] == "server-shutdown-stuck" && e.ln != nil {
			// a client stuck half-way through its request header keeps http.Server.Shutdown
			// waiting until the grace period expires: the upstream connections must be ended anyway
			if sc, err := net.DialTimeout("tcp", e.ln.Addr().String(), time.Second); err == nil {
				defer sc.Close()
				_, _ = sc.Write([]byte("GET /piko/v1/upstream/stuck HTTP/1.1\r\nHost: stuck\r\nX-Partial: "))
				time.Sleep(20 * time.Millisecond)
				grace = 300 * time.Millisecond
				o.Count("server-shutdown:grace-expired")
			}
		}
		ctx, cancel := context.WithTimeout(context.Background(), grace)
		_ = e.srv.Shutdown(ctx)
		cancel()
		e.shut = true
		for _, x := range al {
			x.alive = false
		}
		st := e.quiesce(cond)
		e.oracle(o)
		return e.line(st)
	case "dial":
		if len(ws) != 3 {
			return "bad-op"
		}
		hold := ws[2] == "1"
		var cond func() bool
		if c.up != nil {
			deadline := time.Now().Add(quiesceMax)
			for {
				conn, err := c.up.Dial()
				if err == nil {
					if hold {
						c.held = append(c.held, conn)
					} else {
						_ = conn.Close()
					}
					// the go-away frame may still be in flight
					if c.goAway && c.alive && time.Now().Before(deadline) {
						if hold {
							_ = conn.Close()
							c.held = c.held[:len(c.held)-1]
						}
						time.Sleep(pollEvery)
						continue
					}
					break
				}
				if errors.Is(err, upstream.ErrGone) {
					// server/proxy/httpproxy.go dialUpstream, tcpproxy.go: remove on ErrGone
					e.mgr.RemoveConn(c.up)
					c.proxyRm++
					if c.alive {
						c.lazy = true
					}
					o.Count("dial:gone")
				}
				break
			}
		}
		st := e.quiesce(cond)
		e.oracle(o)
		return e.line(st)
	case "expire":
		if !c.hasExp {
			return "bad-op"
		}
		// with disable-disconnect-on-expiry: still open 700 ms after exp.  Otherwise the server
		// closes at exp; the close is looked for until exp + lateBand (generous: on a loaded box
		// the handler goroutine and the relay are scheduled late), never before exp - 100 ms
		limit := c.exp.Add(700 * time.Millisecond)
		var cond func() bool
		willClose := !e.disable && c.alive
		if willClose {
			cond = e.endOf(c)
			limit = c.exp.Add(lateBand)
		}
		for time.Now().Before(limit) {
			if who, _ := c.pr.ended(); who != "" && willClose {
				break
			}
			time.Sleep(pollEvery)
		}
		if willClose {
			who, at := c.pr.ended()
			switch {
			case who != "server":
				o.Fail("C16", "late-close", fmt.Sprintf("k=%d not closed by the server %dms after expiry", c.k, time.Since(c.exp).Milliseconds()))
			case at.Before(c.exp.Add(-100 * time.Millisecond)):
				o.Fail("C16", "early-close", fmt.Sprintf("k=%d closed %dms before expiry", c.k, c.exp.Sub(at).Milliseconds()))
			case at.After(limit):
				o.Fail("C16", "late-close", fmt.Sprintf("k=%d closed %dms after expiry", c.k, at.Sub(c.exp).Milliseconds()))
			default:
				o.Count("expiry:closed-in-band")
			}
			c.alive = false
		} else if e.disable && c.alive {
			if who, _ := c.pr.ended(); who != "" {
				o.Fail("C16", "closed-despite-disable", fmt.Sprintf("k=%d ended by %s", c.k, who))
			} else {
				o.Count("expiry:stays-open")
			}
		}
		st := e.quiesce(cond)
		e.oracle(o)
		return e.line(st)
	}
	return "bad-op"
}

// Gen: 1-5 listeners over 1-3 endpoints (shared on purpose); every way a connection can end
// (client shutdown, go-away then shutdown, drop, reset, shed, server shutdown, token expiry),
// the proxy's ErrGone removal before/after, in-flight streams held open across the ending.
func (e *sessEngine) Gen(r *rand.Rand, n int, tier string, w *bufio.Writer) {
	for ci := 0; ci < n; ci++ {
		fmt.Fprintf(w, "case session-%d\n", ci)
		authOn := r.Intn(3) == 0
		disable := authOn && r.Intn(3) == 0
		fmt.Fprintf(w, "init %s %s\n", B01(authOn), B01(disable))
		eps := append([]string(nil), EpAlphabet...)
		r.Shuffle(len(eps), func(i, j int) { eps[i], eps[j] = eps[j], eps[i] })
		eps = eps[:1+r.Intn(3)]
		nops := 6 + r.Intn(9)
		if tier == "thorough" {
			nops = 8 + r.Intn(24)
		}
		next := 1
		type gc struct {
			k      int
			open   bool
			goAway bool
			exp    bool
		}
		var cs []*gc
		openCs := func() []*gc {
			var xs []*gc
			for _, c := range cs {
				if c.open {
					xs = append(xs, c)
				}
			}
			return xs
		}
		shut := false
		expiries := 0
		connect := func(tok string) *gc {
			c := &gc{k: next, open: !shut, exp: tok != "-" && tok != "noexp"}
			next++
			cs = append(cs, c)
			fmt.Fprintf(w, "connect %d %s %s\n", c.k, Hx(Pick(r, eps)), tok)
			return c
		}
		plainTok := func() string {
			if authOn {
				if r.Intn(5) < 2 {
					// an expiry far ahead (10 min): the connection has a deadline but ends by
					// every other cause first (server shutdown, shed, go-away, drop, …)
					return "600000"
				}
				return "noexp"
			}
			return "-"
		}
		for i := 0; i < nops; i++ {
			oc := openCs()
			x := r.Intn(100)
			switch {
			case len(oc) == 0 || (x < 30 && len(cs) < 6):
				if authOn && !shut && expiries < 2 && r.Intn(2) == 0 {
					// an expiring token, then straight to its expiry: only quick `dial`s (in-flight
					// streams) in between, and a generous T, so that the expiry cannot pass before
					// the `expire` op even on a loaded box (siblings come from the surrounding ops)
					between := r.Intn(3)
					t := 900 + 500*between + r.Intn(300)
					c := connect(strconv.Itoa(t))
					for j := 0; j < between; j++ {
						fmt.Fprintf(w, "dial %d %d\n", c.k, r.Intn(2))
					}
					fmt.Fprintf(w, "expire %d\n", c.k)
					if !disable {
						c.open = false
					}
					expiries++
					i += between + 1
				} else {
					connect(plainTok())
				}
			case x < 42:
				c := Pick(r, oc)
				fmt.Fprintf(w, "close %d\n", c.k)
				c.goAway = true
			case x < 56:
				c := Pick(r, cs) // sometimes an already ended one
				fmt.Fprintf(w, "dial %d %d\n", c.k, r.Intn(2))
			case x < 68:
				c := Pick(r, cs)
				fmt.Fprintf(w, "shutdown %d\n", c.k)
				c.open = false
			case x < 76:
				c := Pick(r, oc)
				fmt.Fprintf(w, "drop %d\n", c.k)
				c.open = false
			case x < 84:
				c := Pick(r, oc)
				fmt.Fprintf(w, "reset %d\n", c.k)
				c.open = false
			case x < 90:
				fmt.Fprintln(w, "shed")
				for _, c := range cs {
					c.open = false
				}
			case x < 94 && !shut:
				fmt.Fprintln(w, Pick(r, []string{"server-shutdown", "server-shutdown-stuck"}))
				shut = true
				for _, c := range cs {
					c.open = false
				}
			default:
				// go-away, the proxy notices, then the connection ends: the D1 shape
				c := Pick(r, oc)
				fmt.Fprintf(w, "close %d\n", c.k)
				fmt.Fprintf(w, "dial %d 0\n", c.k)
				fmt.Fprintf(w, "%s %d\n", Pick(r, []string{"shutdown", "drop", "reset"}), c.k)
				c.open = false
				i += 2
			}
		}
		// end every connection: the node must advertise nothing and hold no session
		switch r.Intn(3) {
		case 0:
			for _, c := range openCs() {
				fmt.Fprintf(w, "shutdown %d\n", c.k)
			}
		case 1:
			fmt.Fprintln(w, "shed")
		default:
			if !shut {
				fmt.Fprintln(w, Pick(r, []string{"server-shutdown", "server-shutdown", "server-shutdown-stuck"}))
			} else {
				fmt.Fprintln(w, "shed")
			}
		}
	}
}
