// Package mgr is the correspondence engine for LoadBalancedManager / loadBalancer (C05, C15).
package mgr

import (
	"bufio"
	"fmt"
	"math/rand"
	"net"
	"sort"
	"strconv"
	"strings"
	"sync"
	"sync/atomic"

	. "verifharness/core"

	pgossip "github.com/andydunstall/piko/pkg/gossip"
	"github.com/andydunstall/piko/pkg/log"
	"github.com/andydunstall/piko/server/cluster"
	sgossip "github.com/andydunstall/piko/server/gossip"
	"github.com/andydunstall/piko/server/upstream"
)

// Engine mgr: real loadBalancer / LoadBalancedManager / cluster.State / syncer / own gossip state.
// Serves C05 (counts), C15 (selection).

type fakeUp struct {
	id int
	ep string
	// every second upstream is a REAL upstream.ConnUpstream over a yamux session on an in-memory
	// pipe (what upstreamRoute registers), so that code which looks at the session - is it closed? -
	// sees what it would see in production
	conn *upstream.ConnUpstream
	sess *upstream.VSession
	peer net.Conn
}

// obj is what is handed to the manager for this upstream.
func (u *fakeUp) obj() upstream.Upstream {
	if u.conn != nil {
		return u.conn
	}
	return u
}

func (u *fakeUp) EndpointID() string     { return u.ep }
func (u *fakeUp) Dial() (net.Conn, error) { return nil, fmt.Errorf("not dialable") }
func (u *fakeUp) Forward() bool           { return false }

type nopFD struct{}

func (nopFD) Report(string)                 {}
func (nopFD) SuspicionLevel(string) float64 { return 0 }
func (nopFD) Remove(string)                 {}

type mgrEngine struct {
	cs   *cluster.State
	gs   *pgossip.VState
	mgr  *upstream.LoadBalancedManager
	ups  map[string]*fakeUp // "uid/ep" -> object (pointer identity)
	real map[*upstream.ConnUpstream]*fakeUp
	lb   *upstream.VLoadBalancer
	lbUp map[int]*fakeUp
	// oracle bookkeeping for C15: reference registry endpoint -> list of ids
	ref map[string][]int
	// fairness window: since last add/rm for an endpoint, selections
	win map[string][]int
}

// New returns the engine.
func New() Engine { return &mgrEngine{} }

func (e *mgrEngine) Reset() {
	e.cs, e.gs, e.mgr = nil, nil, nil
	for _, u := range e.ups {
		if u.sess != nil {
			_ = u.sess.Close()
			_ = u.peer.Close()
		}
	}
	e.real = map[*upstream.ConnUpstream]*fakeUp{}
	e.ups = map[string]*fakeUp{}
	e.lb = upstream.VNewLB()
	e.lbUp = map[int]*fakeUp{}
	e.ref = map[string][]int{}
	e.win = map[string][]int{}
}

func (e *mgrEngine) up(uid int, ep string) *fakeUp {
	k := strconv.Itoa(uid) + "/" + ep
	u, ok := e.ups[k]
	if !ok {
		u = &fakeUp{id: uid, ep: ep}
		if uid%2 == 1 {
			u.sess, u.peer = upstream.VNewPipeSession()
			u.conn = upstream.NewConnUpstream(ep, u.sess)
			e.real[u.conn] = u
		}
		e.ups[k] = u
	}
	return u
}

func showEntry(en pgossip.Entry) string {
	s := Hx(en.Key) + "=" + Hx(en.Value) + "@" + strconv.FormatUint(en.Version, 10)
	if en.Deleted {
		s += "D"
	}
	if en.Internal {
		s += "I"
	}
	return s
}

func showOwnGossip(gs *pgossip.VState) string {
	n := gs.LocalNode()
	var xs []string
	for _, en := range n.Entries {
		xs = append(xs, showEntry(en))
	}
	return "v" + strconv.FormatUint(n.Version, 10) + "[" + strings.Join(xs, ",") + "]"
}

func (e *mgrEngine) show() string {
	return "eps=" + ShowCounts(e.mgr.Endpoints()) +
		" local=" + ShowCounts(e.cs.LocalNode().Endpoints) +
		" gossip=" + showOwnGossip(e.gs)
}

// oracleCounts checks C05 directly on the implementation: registered == cluster-local ==
// advertised (live gossip entry "endpoint:<id>" with the decimal count), and the reference
// registry maintained by the harness.
func (e *mgrEngine) oracleCounts(o *Out) {
	reg := e.mgr.Endpoints()
	loc := e.cs.LocalNode().Endpoints
	adv := map[string]int{}
	for _, en := range e.gs.LocalNode().Entries {
		if en.Internal || en.Deleted || !strings.HasPrefix(en.Key, "endpoint:") {
			continue
		}
		n, err := strconv.Atoi(en.Value)
		if err != nil {
			o.Fail("C05", "advertised-not-a-count", Hx(en.Key)+"="+Hx(en.Value))
			continue
		}
		adv[strings.TrimPrefix(en.Key, "endpoint:")] = n
	}
	want := map[string]int{}
	for ep, ids := range e.ref {
		if len(ids) > 0 {
			want[ep] = len(ids)
		}
	}
	if ShowCounts(reg) != ShowCounts(want) {
		o.Fail("C05", "registered-vs-reference", "registered="+ShowCounts(reg)+" reference="+ShowCounts(want))
	}
	if ShowCounts(reg) != ShowCounts(loc) {
		o.Fail("C05", "registered-vs-cluster", "registered="+ShowCounts(reg)+" cluster="+ShowCounts(loc))
	}
	if ShowCounts(reg) != ShowCounts(adv) {
		o.Fail("C05", "registered-vs-advertised", "registered="+ShowCounts(reg)+" advertised="+ShowCounts(adv))
	}
	for ep, n := range adv {
		if n <= 0 {
			o.Fail("C05", "advertised-nonpositive", Hx(ep))
		}
	}
	o.Count("oracle:C05")
}

func removeFirst(xs []int, x int) ([]int, bool) {
	for i, y := range xs {
		if y == x {
			return append(append([]int(nil), xs[:i]...), xs[i+1:]...), true
		}
	}
	return xs, false
}

func (e *mgrEngine) Step(ws []string, o *Out) string {
	switch ws[0] {
	case "init":
		id, p, a := Unhx(ws[1]), Unhx(ws[2]), Unhx(ws[3])
		e.cs = cluster.NewState(&cluster.Node{ID: id, ProxyAddr: p, AdminAddr: a}, log.NewNopLogger())
		sy := sgossip.VNewSyncer(e.cs, log.NewNopLogger())
		e.gs = pgossip.VNewClusterState(id, "", nopFD{}, sy)
		sy.Sync(e.gs)
		e.mgr = upstream.NewLoadBalancedManager(e.cs, nil)
		return "ok " + e.show()
	case "node":
		n := &cluster.Node{ID: Unhx(ws[1]), Status: cluster.NodeStatus(ws[2]), ProxyAddr: Unhx(ws[3]), AdminAddr: Unhx(ws[4])}
		if ws[2] == "unset" {
			n.Status = ""
		}
		for _, kv := range ws[5:] {
			p := strings.SplitN(kv, "=", 2)
			if n.Endpoints == nil {
				n.Endpoints = map[string]int{}
			}
			n.Endpoints[Unhx(p[0])] = Atoi(p[1])
		}
		e.cs.AddNode(n)
		return "ok"
	case "compact":
		// the periodic CompactLocal of the node's own gossip state (every 10 gossip intervals in
		// production): what the node advertises must still be what is registered
		thr := Atoi(ws[1])
		panicked := false
		func() {
			defer func() {
				if recover() != nil {
					panicked = true
				}
			}()
			e.gs.CompactLocal(thr)
		}()
		if panicked {
			return "panic"
		}
		e.oracleCounts(o)
		o.Count("compact")
		return "ok " + e.show()
	case "add":
		uid, ep := Atoi(ws[1]), Unhx(ws[2])
		e.mgr.AddConn(e.up(uid, ep).obj())
		e.ref[ep] = append(e.ref[ep], uid)
		e.win[ep] = nil
		e.oracleCounts(o)
		return "ok " + e.show()
	case "rm":
		uid, ep := Atoi(ws[1]), Unhx(ws[2])
		e.mgr.RemoveConn(e.up(uid, ep).obj())
		if xs, ok := removeFirst(e.ref[ep], uid); ok {
			e.ref[ep] = xs
			o.Count("rm:effective")
		} else {
			o.Count("rm:absent")
		}
		e.win[ep] = nil
		e.oracleCounts(o)
		return "ok " + e.show()
	case "sessclose":
		// the yamux session of a (real) upstream ends - client gone, shed, token expired - and the
		// connection handler has not yet run its deferred RemoveConn: nothing is deregistered by
		// this alone, whatever happens in between
		uid, ep := Atoi(ws[1]), Unhx(ws[2])
		if u := e.up(uid, ep); u.sess != nil {
			_ = u.sess.Close()
			o.Count("sessclose:real")
		}
		e.oracleCounts(o)
		return "ok " + e.show()
	case "sel":
		ep, allow := Unhx(ws[1]), ws[2] == "1"
		u, ok := e.mgr.Select(ep, allow)
		o.Count("oracle:C15")
		switch {
		case !ok && u == nil:
			if len(e.ref[ep]) > 0 {
				o.Fail("C15", "registered-but-none", Hx(ep))
			}
			return "sel none"
		case ok && u == nil:
			o.Fail("C15", "nil-true", Hx(ep))
			return "sel nil-true"
		case !ok:
			o.Fail("C15", "upstream-false", Hx(ep))
			return "sel weird"
		}
		fu, isLocal := u.(*fakeUp)
		if cu, isConn := u.(*upstream.ConnUpstream); isConn {
			fu, isLocal = e.real[cu], e.real[cu] != nil
		}
		if isLocal {
			if fu.ep != ep {
				o.Fail("C15", "wrong-endpoint", Hx(ep)+" got "+Hx(fu.ep))
			}
			found := false
			for _, id := range e.ref[ep] {
				if id == fu.id {
					found = true
				}
			}
			if !found {
				o.Fail("C15", "not-registered", Hx(ep)+" uid="+strconv.Itoa(fu.id))
			}
			// fairness: window of selections since the last add/rm of this endpoint:
			// every n consecutive results are a permutation of the n registered (distinct) ids.
			e.win[ep] = append(e.win[ep], fu.id)
			ids := e.ref[ep]
			if n := len(ids); len(e.win[ep]) >= n && distinct(ids) {
				last := e.win[ep][len(e.win[ep])-n:]
				if !samePerm(last, ids) {
					o.Fail("C15", "unfair-window", Hx(ep)+" window="+fmt.Sprint(last)+" registered="+fmt.Sprint(ids))
				}
				o.Count("oracle:C15:window")
			}
			return "sel local " + strconv.Itoa(fu.id)
		}
		n, isNode := upstream.VNodeOf(u)
		if !isNode {
			o.Fail("C15", "unknown-upstream-type", Hx(ep))
			return "sel weird"
		}
		if !allow {
			o.Fail("C15", "remote-when-not-allowed", Hx(ep)+" node="+Hx(n.ID))
		}
		if len(e.ref[ep]) > 0 {
			o.Fail("C15", "remote-despite-local", Hx(ep))
		}
		if u.EndpointID() != ep {
			o.Fail("C15", "remote-wrong-endpoint", Hx(ep))
		}
		// soundness against the routing table read back through the public API
		cur, ok2 := e.cs.Node(n.ID)
		if !ok2 || n.ID == e.cs.LocalID() || cur.Status != cluster.NodeStatusActive || cur.Endpoints[ep] <= 0 {
			o.Fail("C04", "lookup-unsound", Hx(ep)+" node="+Hx(n.ID))
		}
		return "sel remote " + Hx(n.ID)
	case "conc":
		// concurrent stress on a FRESH manager stack (independent of the case's state): G goroutines
		// add/remove/select a small SHARED set of upstream objects, so removals race with adds of the
		// same upstream (the proxy dropping a gone upstream while its handler is still registering or
		// deregistering it).  Every call is atomic under the manager mutex, hence any interleaving is
		// some sequential op list and C05_counts applies: at quiescence the three stores must agree.
		e.concStress(Atoi(ws[1]), Atoi(ws[2]), int64(Atoi(ws[3])), o)
		return "conc done"
	case "lb.new":
		e.lb = upstream.VNewLB()
		return "ok " + e.showLB()
	case "lb.add":
		e.lb.Add(e.lbu(Atoi(ws[1])))
		return "ok " + e.showLB()
	case "lb.rm":
		em := e.lb.Remove(e.lbu(Atoi(ws[1])))
		ups, idx := upstream.VLBState(e.lb)
		if len(ups) > 0 && (idx < 0 || idx >= len(ups)) {
			o.Fail("C15", "cursor-out-of-range", fmt.Sprintf("idx=%d len=%d", idx, len(ups)))
		}
		return "empty=" + B01(em) + " " + e.showLB()
	case "lb.next":
		u := e.lb.Next()
		if u == nil {
			return "next nil"
		}
		return "next " + strconv.Itoa(u.(*fakeUp).id)
	}
	return "bad-op"
}

func (e *mgrEngine) concStress(goroutines, iters int, seed int64, o *Out) {
	cs := cluster.NewState(&cluster.Node{ID: "c0", ProxyAddr: "p", AdminAddr: "a"}, log.NewNopLogger())
	sy := sgossip.VNewSyncer(cs, log.NewNopLogger())
	gs := pgossip.VNewClusterState("c0", "", nopFD{}, sy)
	sy.Sync(gs)
	mgr := upstream.NewLoadBalancedManager(cs, nil)
	eps := []string{"e1", "e2"}
	var ups []*fakeUp
	for i := 0; i < 3; i++ {
		ups = append(ups, &fakeUp{id: i, ep: eps[i%2]})
	}
	var wg sync.WaitGroup
	for g := 0; g < goroutines; g++ {
		wg.Add(1)
		go func(g int) {
			defer wg.Done()
			defer func() {
				if r := recover(); r != nil {
					o.Count("conc:panic")
				}
			}()
			r := rand.New(rand.NewSource(seed*7919 + int64(g)))
			for i := 0; i < iters; i++ {
				u := ups[r.Intn(len(ups))]
				switch r.Intn(5) {
				case 0, 1:
					mgr.AddConn(u)
				case 2, 3:
					mgr.RemoveConn(u)
				default:
					mgr.Select(u.ep, r.Intn(2) == 0)
				}
			}
		}(g)
	}
	wg.Wait()
	if o.Stats["conc:panic"] > 0 {
		o.Fail("C05", "panic-in-concurrent-use", "")
	}
	// drain: remove everything that is still registered, repeatedly (duplicate removals are no-ops)
	for pass := 0; pass < 2; pass++ {
		reg := ShowCounts(mgr.Endpoints())
		loc := ShowCounts(cs.LocalNode().Endpoints)
		adv := map[string]int{}
		for _, en := range gs.LocalNode().Entries {
			if en.Internal || en.Deleted || !strings.HasPrefix(en.Key, "endpoint:") {
				continue
			}
			n, _ := strconv.Atoi(en.Value)
			adv[strings.TrimPrefix(en.Key, "endpoint:")] = n
		}
		if reg != loc || reg != ShowCounts(adv) {
			o.Fail("C05", "quiescent-stores-differ-after-concurrency", fmt.Sprintf("pass=%d registered=%s cluster=%s advertised=%s", pass, reg, loc, ShowCounts(adv)))
			// C16: "an upstream is available for routing exactly while its connection is open … once all
			// upstreams are gone the node advertises nothing" rests on the same agreement of the stores
			o.Fail("C16", "advertised-vs-registered-after-concurrency", fmt.Sprintf("pass=%d registered=%s cluster=%s advertised=%s", pass, reg, loc, ShowCounts(adv)))
			return
		}
		for _, u := range ups {
			for k := 0; k < 64; k++ { // an upstream may have been added many times
				mgr.RemoveConn(u)
			}
		}
	}
	o.Count("oracle:C05:conc")
	// C15 under concurrency: a stable set of n upstreams, G goroutines selecting at the same time;
	// calls are serialised by the manager mutex, so G*M selections (a multiple of n) return each
	// upstream exactly G*M/n times, never nil/not-found, never a panic.
	mgr2 := upstream.NewLoadBalancedManager(cluster.NewState(&cluster.Node{ID: "c1"}, log.NewNopLogger()), nil)
	stable := []*fakeUp{{id: 0, ep: "s"}, {id: 1, ep: "s"}, {id: 2, ep: "s"}}
	for _, u := range stable {
		mgr2.AddConn(u)
	}
	const perG = 6000 // multiple of 3
	counts := make([][3]int, goroutines)
	var bad, panics int64
	var wg2 sync.WaitGroup
	for g := 0; g < goroutines; g++ {
		wg2.Add(1)
		go func(g int) {
			defer wg2.Done()
			defer func() {
				if r := recover(); r != nil {
					atomic.AddInt64(&panics, 1)
				}
			}()
			for i := 0; i < perG; i++ {
				u, ok := mgr2.Select("s", false)
				fu, isFake := u.(*fakeUp)
				if !ok || !isFake || fu.ep != "s" {
					atomic.AddInt64(&bad, 1)
					continue
				}
				counts[g][fu.id]++
			}
		}(g)
	}
	wg2.Wait()
	var tot [3]int
	for _, c := range counts {
		for i := range tot {
			tot[i] += c[i]
		}
	}
	want := goroutines * perG / 3
	if panics > 0 || bad > 0 || tot[0] != want || tot[1] != want || tot[2] != want {
		o.Fail("C15", "concurrent-select-unfair-or-invalid", fmt.Sprintf("counts=%v want=%d each bad=%d panics=%d", tot, want, bad, panics))
	}
	o.Count("oracle:C15:conc")
}

func (e *mgrEngine) lbu(id int) *fakeUp {
	u, ok := e.lbUp[id]
	if !ok {
		u = &fakeUp{id: id}
		e.lbUp[id] = u
	}
	return u
}

func (e *mgrEngine) showLB() string {
	ups, _ := upstream.VLBState(e.lb)
	var xs []string
	for _, u := range ups {
		xs = append(xs, strconv.Itoa(u.(*fakeUp).id))
	}
	return "lb=[" + strings.Join(xs, ",") + "]"
}

func distinct(xs []int) bool {
	m := map[int]bool{}
	for _, x := range xs {
		if m[x] {
			return false
		}
		m[x] = true
	}
	return true
}

func samePerm(a, b []int) bool {
	x := append([]int(nil), a...)
	y := append([]int(nil), b...)
	sort.Ints(x)
	sort.Ints(y)
	if len(x) != len(y) {
		return false
	}
	for i := range x {
		if x[i] != y[i] {
			return false
		}
	}
	return true
}

// Gen: cases over 1-4 endpoints x 1-5 upstream ids; duplicate adds, duplicate and unknown
// removes (the D1 shape), selects with and without remote rows, raw balancer sequences
// that remove the cursor element / the last element / an unknown element.
func (e *mgrEngine) Gen(r *rand.Rand, n int, tier string, w *bufio.Writer) {
	for c := 0; c < n; c++ {
		fmt.Fprintf(w, "case mgr-%d\n", c)
		fmt.Fprintf(w, "init %s %s %s\n", Hx("n0"), Hx("10.0.0.1:8000"), Hx("10.0.0.1:8002"))
		neps := 1 + r.Intn(4)
		eps := append([]string(nil), EpAlphabet...)
		r.Shuffle(len(eps), func(i, j int) { eps[i], eps[j] = eps[j], eps[i] })
		eps = eps[:neps]
		nups := 1 + r.Intn(5)
		// remote rows, mutually inconsistent on purpose
		statuses := []string{"active", "active", "unreachable", "left"}
		for i := 1; i <= r.Intn(4); i++ {
			line := fmt.Sprintf("node %s %s %s %s", Hx(fmt.Sprintf("n%d", i)), Pick(r, statuses), Hx(fmt.Sprintf("10.0.0.%d:8000", i+1)), Hx(fmt.Sprintf("10.0.0.%d:8002", i+1)))
			for _, ep := range eps {
				if r.Intn(2) == 0 {
					line += fmt.Sprintf(" %s=%d", Hx(ep), r.Intn(4)-1)
				}
			}
			fmt.Fprintln(w, line)
		}
		nops := 10 + r.Intn(50)
		if tier == "thorough" {
			nops = 20 + r.Intn(200)
		}
		for i := 0; i < nops; i++ {
			ep := Pick(r, eps)
			uid := 1 + r.Intn(nups)
			switch x := r.Intn(10); {
			case x < 3:
				fmt.Fprintf(w, "add %d %s\n", uid, Hx(ep))
			case x < 6:
				fmt.Fprintf(w, "rm %d %s\n", uid, Hx(ep))
				if r.Intn(4) == 0 { // late duplicate removal
					fmt.Fprintf(w, "rm %d %s\n", uid, Hx(ep))
				}
			default:
				if r.Intn(8) == 0 {
					fmt.Fprintf(w, "sessclose %d %s\n", uid, Hx(ep))
				}
				fmt.Fprintf(w, "sel %s %d\n", Hx(ep), r.Intn(2))
			}
			if r.Intn(12) == 0 {
				fmt.Fprintf(w, "compact %d\n", 1+r.Intn(3))
			}
		}
		if c%4 == 0 {
			fmt.Fprintf(w, "conc %d %d %d\n", 4+r.Intn(5), 400+r.Intn(800), r.Intn(1000000))
		}
		// raw balancer
		fmt.Fprintln(w, "lb.new")
		for i := 0; i < 10+r.Intn(40); i++ {
			switch x := r.Intn(10); {
			case x < 3:
				fmt.Fprintf(w, "lb.add %d\n", 1+r.Intn(5))
			case x < 5:
				fmt.Fprintf(w, "lb.rm %d\n", 1+r.Intn(6))
			default:
				fmt.Fprintln(w, "lb.next")
			}
		}
	}
}
