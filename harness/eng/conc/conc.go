// Package conc is the engine for C20: one REAL node stack (LoadBalancedManager, cluster.State,
// syncer as gossip watcher and cluster subscriber, gossip clusterState with a real accrual
// failure detector, the real packet listener, upstream.Server for Rebalance) driven by 8-16
// goroutines at once, built with -race.
//
// Process structure.  The engine proper (`h-conc run`, the supervisor) starts a WORKER
// process (`h-conc[-race] worker`, replaced after a hang or crash; every case starts on a fresh
// node) and talks to it over pipes, one op line at a time.  That isolates what C20 is about: a deadlocked `run` is detected by the worker's
// no-progress watchdog (3 s, goroutine dump captured; the supervisor has a wall-clock backstop), a fatal runtime
// error (concurrent map access) or an unrecovered panic only kills the worker, and data-race
// reports written by the race runtime to the worker's stderr are read by the supervisor and
// turned into `ORACLE FAIL C20 data-race …` lines, so that they are shrunk and replayed like
// any other oracle failure.  The worker is the supervisor's own binary when that was built
// with -race, otherwise the sibling `h-conc-race` binary if it is at least as new as every
// Go source it was built from, otherwise the supervisor's own (race-less) binary.
//
// ops (one output line each, byte-identical with lean/Driver/Conc.lean):
//
//	init <id> <proxy> <admin>      fresh node                                      -> ok
//	script <uid> <ep> <+/-...>     AddConn/RemoveConn script of one upstream       -> ok
//	load <kind>                    background load for the next run                -> skip
//	run <seed> <goroutines> <n>    run scripts and load concurrently, wait for quiescence,
//	                               print registry / cluster-local / advertised counts
//	fdorder <bootstrap_us> <stall_us>   documentation of the fixed finding F8 (see fdOrder) -> skip
package conc

import (
	"bufio"
	"bytes"
	"debug/buildinfo"
	"fmt"
	"io"
	"math/rand"
	"net"
	"os"
	"os/exec"
	"path/filepath"
	"regexp"
	"runtime"
	"runtime/debug"
	"sort"
	"strconv"
	"strings"
	"sync"
	"sync/atomic"
	"syscall"
	"time"

	. "verifharness/core"

	pgossip "github.com/andydunstall/piko/pkg/gossip"
	"github.com/andydunstall/piko/pkg/log"
	"github.com/andydunstall/piko/server/cluster"
	"github.com/andydunstall/piko/server/config"
	sgossip "github.com/andydunstall/piko/server/gossip"
	"github.com/andydunstall/piko/server/upstream"
)

const (
	// Watchdogs.  The one that decides is inside the worker: a `run` in which no goroutine
	// completes an operation during 30 consecutive 100 ms ticks of the worker's own monitor
	// goroutine (3 s of the worker actually running - robust against a loaded machine, where
	// the monitor is starved along with everything else) is a hang.  The supervisor's wall
	// clock timeouts are only backstops for a worker that does not even get that far.
	opTimeout    = 120 * time.Second
	startTimeout = 300 * time.Second
	maxLost      = 3
	pikoModule   = "github.com/andydunstall/piko"
)

// ------------------------------------------------------------------------------ supervisor

type supervisor struct {
	w       *workerProc
	dead    bool // the worker of this case hung or crashed
	fresh   bool // the next op is the first of a case: the worker drops its node first
	lost    int  // workers lost to a hang or crash so far in this process
	binary  string
	binNote string
}

type workerProc struct {
	cmd    *exec.Cmd
	stdin  io.WriteCloser
	lines  chan string // stdout lines; closed at EOF
	errMu  sync.Mutex
	errBuf bytes.Buffer
	errEOF chan struct{}
	seq    int
	seen   int // bytes of stderr already examined
}

// New returns the engine.
func New() Engine { return &supervisor{} }

// Reset starts a new case.  The worker process is kept (starting a -race binary costs
// seconds); it is replaced only after a hang or a crash.
func (e *supervisor) Reset() {
	e.dead = false
	e.fresh = true
}

func (e *supervisor) stop() {
	if e.w == nil {
		return
	}
	_ = e.w.stdin.Close()
	done := make(chan struct{})
	go func() { _ = e.w.cmd.Wait(); close(done) }()
	select {
	case <-done:
	case <-time.After(3 * time.Second):
		_ = e.w.cmd.Process.Kill()
		<-done
	}
	e.w = nil
}

func newestGo(dirs ...string) time.Time {
	var t time.Time
	for _, d := range dirs {
		_ = filepath.Walk(d, func(p string, info os.FileInfo, err error) error {
			if err != nil {
				return nil
			}
			if info.IsDir() {
				if n := info.Name(); p != d && (strings.HasPrefix(n, ".") || n == "bin") {
					return filepath.SkipDir
				}
				return nil
			}
			if strings.HasSuffix(p, ".go") && info.ModTime().After(t) {
				t = info.ModTime()
			}
			return nil
		})
	}
	return t
}

func replacePath(bi *debug.BuildInfo) string {
	for _, d := range bi.Deps {
		if d.Path == pikoModule && d.Replace != nil {
			return d.Replace.Path
		}
	}
	return ""
}

// workerBinary picks the binary that runs the cases (see the package comment).
func workerBinary() (string, string) {
	self, err := os.Executable()
	if err != nil {
		return os.Args[0], "self"
	}
	if raceEnabled || os.Getenv("VERIF_CONC_NORACE") != "" {
		return self, "self"
	}
	sib := self + "-race"
	st, err := os.Stat(sib)
	if err != nil {
		return self, "no race sibling: race detector NOT active"
	}
	mine, ok := debug.ReadBuildInfo()
	theirs, err := buildinfo.ReadFile(sib)
	if !ok || err != nil || replacePath(mine) == "" || replacePath(mine) != replacePath(theirs) {
		return self, "race sibling built from another tree: race detector NOT active"
	}
	harness := filepath.Dir(filepath.Dir(self))
	repo := replacePath(mine)
	newest := newestGo(filepath.Join(repo, "pkg"), filepath.Join(repo, "server"),
		filepath.Join(harness, "eng", "conc"), filepath.Join(harness, "core"), filepath.Join(harness, "shims"), filepath.Join(harness, "cmd", "h-conc"))
	if newest.After(st.ModTime()) {
		return self, "race sibling older than the sources: race detector NOT active"
	}
	return sib, "race sibling"
}

func (e *supervisor) start() error {
	if e.binary == "" {
		e.binary, e.binNote = workerBinary()
		if strings.Contains(e.binNote, "NOT") {
			fmt.Fprintln(os.Stderr, "h-conc:", e.binNote)
		}
	}
	cmd := exec.Command(e.binary, "worker")
	env := []string{}
	for _, kv := range os.Environ() {
		if !strings.HasPrefix(kv, "GORACE=") && !strings.HasPrefix(kv, "GOTRACEBACK=") && !strings.HasPrefix(kv, "GIN_MODE=") {
			env = append(env, kv)
		}
	}
	cmd.Env = append(env, "GORACE=halt_on_error=0", "GOTRACEBACK=all", "GIN_MODE=release")
	stdin, err := cmd.StdinPipe()
	if err != nil {
		return err
	}
	stdout, err := cmd.StdoutPipe()
	if err != nil {
		return err
	}
	stderr, err := cmd.StderrPipe()
	if err != nil {
		return err
	}
	if err := cmd.Start(); err != nil {
		return err
	}
	w := &workerProc{cmd: cmd, stdin: stdin, lines: make(chan string, 64), errEOF: make(chan struct{})}
	go func() {
		sc := bufio.NewScanner(stdout)
		sc.Buffer(make([]byte, 1<<20), 1<<26)
		for sc.Scan() {
			w.lines <- sc.Text()
		}
		close(w.lines)
	}()
	go func() {
		buf := make([]byte, 1<<16)
		for {
			n, err := stderr.Read(buf)
			if n > 0 {
				w.errMu.Lock()
				w.errBuf.Write(buf[:n])
				w.errMu.Unlock()
			}
			if err != nil {
				close(w.errEOF)
				return
			}
		}
	}()
	// a -race binary needs seconds to start (more on a loaded machine): not part of any op
	select {
	case l, ok := <-w.lines:
		if !ok || l != "READY" {
			_ = cmd.Process.Kill()
			go func() { _ = cmd.Wait() }()
			return fmt.Errorf("worker did not start: %q %s", l, oneLine(w.stderrText(), 300))
		}
	case <-time.After(startTimeout):
		_ = cmd.Process.Kill()
		go func() { _ = cmd.Wait() }()
		return fmt.Errorf("worker did not start within %s", startTimeout)
	}
	e.w = w
	return nil
}

func (w *workerProc) stderrText() string {
	w.errMu.Lock()
	defer w.errMu.Unlock()
	return w.errBuf.String()
}

// newStderr returns what the worker wrote to stderr since the last call, after waiting (when
// a sync token is given) until the token has arrived.
func (w *workerProc) newStderr(token string) string {
	deadline := time.Now().Add(3 * time.Second)
	for {
		s := w.stderrText()
		if token == "" || strings.Contains(s[w.seen:], token) || time.Now().After(deadline) {
			seg := s[w.seen:]
			w.seen = len(s)
			return seg
		}
		time.Sleep(time.Millisecond)
	}
}

var (
	reAddr    = regexp.MustCompile(`0x[0-9a-f]+`)
	reGor     = regexp.MustCompile(`goroutine \d+`)
	rePikoFn  = regexp.MustCompile(`github\.com/andydunstall/piko/([^\s(]+(?:\([^)]*\))?[^\s(]*)\(`)
	reFileLn  = regexp.MustCompile(`([a-z_]+\.go:\d+)`)
	reRaceHdr = regexp.MustCompile(`^(Read|Write|Previous read|Previous write|Atomic read|Atomic write|Previous atomic read|Previous atomic write) at`)
)

// raceSummaries condenses each "WARNING: DATA RACE" block to the two accesses and the first
// piko frame of each.
func raceSummaries(s string) []string {
	var out []string
	seen := map[string]bool{}
	for _, blk := range strings.Split(s, "WARNING: DATA RACE")[1:] {
		if i := strings.Index(blk, "=================="); i >= 0 {
			blk = blk[:i]
		}
		lines := strings.Split(blk, "\n")
		var parts []string
		for i := 0; i < len(lines); i++ {
			m := reRaceHdr.FindStringSubmatch(strings.TrimSpace(lines[i]))
			if m == nil {
				continue
			}
			frame := "?"
			for j := i + 1; j < len(lines) && strings.TrimSpace(lines[j]) != ""; j++ {
				if fm := rePikoFn.FindStringSubmatch(lines[j]); fm != nil {
					frame = fm[1]
					if j+1 < len(lines) {
						if lm := reFileLn.FindStringSubmatch(lines[j+1]); lm != nil {
							frame += "@" + lm[1]
						}
					}
					break
				}
			}
			parts = append(parts, strings.ReplaceAll(strings.ToLower(m[1]), " ", "-")+":"+frame)
		}
		sum := strings.Join(parts, " vs ")
		if sum == "" {
			sum = "unparsed-report"
		}
		if !seen[sum] {
			seen[sum] = true
			out = append(out, sum)
		}
	}
	return out
}

// blockedSummary lists, from a goroutine dump, the goroutines blocked on a mutex with their
// innermost piko frames.
func blockedSummary(dump string) string {
	var out []string
	seen := map[string]bool{}
	for _, g := range strings.Split(dump, "\n\n") {
		g = strings.TrimSpace(g)
		if !strings.HasPrefix(g, "goroutine ") {
			continue
		}
		hdr := g
		if i := strings.Index(g, "\n"); i >= 0 {
			hdr = g[:i]
		}
		if !strings.Contains(hdr, "Mutex") && !strings.Contains(hdr, "semacquire") && !strings.Contains(hdr, "sync.") {
			continue
		}
		var frames []string
		for _, m := range rePikoFn.FindAllStringSubmatch(g, 5) {
			frames = append(frames, m[1])
		}
		if len(frames) > 0 {
			st := hdr[strings.Index(hdr, "[")+1:]
			if i := strings.IndexAny(st, ",]"); i >= 0 {
				st = st[:i]
			}
			l := "[" + st + "] " + strings.Join(frames, " <- ")
			if !seen[l] {
				seen[l] = true
				out = append(out, l)
			}
		}
	}
	if len(out) == 0 {
		return "no goroutine blocked on a mutex in piko code found in the dump"
	}
	// the longest call chains (lock taken deep inside a callback) are the informative ones
	sort.SliceStable(out, func(i, j int) bool { return strings.Count(out[i], "<-") > strings.Count(out[j], "<-") })
	if len(out) > 5 {
		out = out[:5]
	}
	return strings.Join(out, " ;; ")
}

func oneLine(s string, max int) string {
	s = reAddr.ReplaceAllString(s, "0x…")
	s = reGor.ReplaceAllString(s, "goroutine N")
	s = strings.Join(strings.Fields(s), " ")
	if len(s) > max {
		s = s[:max] + "…"
	}
	return s
}

func (e *supervisor) Step(ws []string, o *Out) string {
	if e.dead {
		return "dead"
	}
	if e.lost >= maxLost {
		// the failure is established (and reported) several times over: do not spend
		// 2 s + a -race process start on every remaining case of this shard
		o.Count("ops:not-run-after-repeated-hangs-or-crashes")
		return "dead"
	}
	if e.w == nil {
		if err := e.start(); err != nil {
			o.Fail("C20", "harness-cannot-start-worker", oneLine(err.Error(), 200))
			e.dead = true
			return "dead"
		}
	}
	w := e.w
	w.seq++
	mark := ""
	if e.fresh {
		mark, e.fresh = "! ", false
	}
	if _, err := io.WriteString(w.stdin, strconv.Itoa(w.seq)+" "+mark+strings.Join(ws, " ")+"\n"); err != nil {
		return e.crashed(o, "write to worker: "+err.Error())
	}
	timer := time.NewTimer(opTimeout)
	defer timer.Stop()
	for {
		select {
		case l, ok := <-w.lines:
			if !ok {
				return e.crashed(o, "worker exited")
			}
			switch {
			case strings.HasPrefix(l, "F "):
				p := strings.SplitN(l[2:], " ", 3)
				for len(p) < 3 {
					p = append(p, "")
				}
				o.Fail(p[0], p[1], p[2])
			case strings.HasPrefix(l, "C "):
				p := strings.Fields(l[2:])
				if len(p) == 2 {
					o.Add(p[0], Atoi(p[1]))
				}
			case strings.HasPrefix(l, "R "):
				seg := w.newStderr("#SYNC " + strconv.Itoa(w.seq) + "\n")
				rs := raceSummaries(seg)
				for i, r := range rs {
					if i >= 3 {
						break
					}
					o.Fail("C20", "data-race", r)
				}
				if len(rs) > 0 {
					o.Add("races", len(rs))
				}
				if ws[0] == "run" {
					if e.binary != "" && (raceEnabled || strings.HasSuffix(e.binary, "-race")) {
						o.Count("runs:race-detector-on")
					} else {
						o.Count("runs:race-detector-off")
					}
				}
				if l == "R hang" { // the worker's own no-progress watchdog fired; it has exited
					_ = w.cmd.Process.Kill()
					go func() { _ = w.cmd.Wait() }()
					o.Count("hangs")
					e.w, e.dead = nil, true
					e.lost++
				}
				return l[2:]
			}
			// anything else on stdout (library chatter) is ignored
		case <-timer.C:
			// watchdog: dump the goroutines, then kill
			_ = w.cmd.Process.Signal(syscall.SIGQUIT)
			select {
			case <-w.errEOF:
			case <-time.After(3 * time.Second):
			}
			_ = w.cmd.Process.Kill()
			go func() { _ = w.cmd.Wait() }()
			seg := w.newStderr("")
			for _, r := range raceSummaries(seg) {
				o.Fail("C20", "data-race", r)
			}
			o.Fail("C20", "deadlock-or-hang", "op `"+ws[0]+"` did not complete in "+opTimeout.String()+": "+oneLine(blockedSummary(seg), 900))
			o.Count("hangs")
			e.w, e.dead = nil, true
			e.lost++
			return "hang"
		}
	}
}

func (e *supervisor) crashed(o *Out, why string) string {
	w := e.w
	select {
	case <-w.errEOF:
	case <-time.After(2 * time.Second):
	}
	_ = w.cmd.Process.Kill()
	go func() { _ = w.cmd.Wait() }()
	seg := w.newStderr("")
	for _, r := range raceSummaries(seg) {
		o.Fail("C20", "data-race", r)
	}
	msg := ""
	for _, l := range strings.Split(seg, "\n") {
		if strings.HasPrefix(l, "fatal error:") || strings.HasPrefix(l, "panic:") {
			msg = l
			break
		}
	}
	var frames []string
	for _, m := range rePikoFn.FindAllStringSubmatch(seg, 4) {
		frames = append(frames, m[1])
	}
	o.Fail("C20", "crash", oneLine(why+": "+msg+" "+strings.Join(frames, " <- "), 600))
	o.Count("crashes")
	e.w, e.dead = nil, true
	e.lost++
	return "crash"
}

// ------------------------------------------------------------------------------ generator

var loadKinds = []string{"sel", "packet", "stream", "out", "periodic", "status", "fd", "fdfirst"}

func genScript(r *rand.Rand, n int) string {
	var b strings.Builder
	cnt := 0
	for i := 0; i < n; i++ {
		// mostly valid; sometimes a removal of an absent upstream (no-op, the D1 shape) or a
		// duplicate add
		if cnt == 0 && r.Intn(8) != 0 || cnt > 0 && r.Intn(5) < 2 {
			b.WriteByte('+')
			cnt++
		} else {
			b.WriteByte('-')
			if cnt > 0 {
				cnt--
			}
		}
	}
	return b.String()
}

// Gen: per case one node, 1-3 endpoints shared by 3-10 upstream scripts, all load kinds (a
// few cases drop some), 8-16 goroutines, one or two phases.
func (e *supervisor) Gen(r *rand.Rand, n int, tier string, w *bufio.Writer) {
	for c := 0; c < n; c++ {
		fmt.Fprintf(w, "case conc-%d\n", c)
		fmt.Fprintf(w, "init %s %s %s\n", Hx("n0"), Hx("10.0.0.1:8000"), Hx("10.0.0.1:8002"))
		eps := append([]string(nil), EpAlphabet...)
		r.Shuffle(len(eps), func(i, j int) { eps[i], eps[j] = eps[j], eps[i] })
		eps = eps[:1+r.Intn(3)]
		uid := 0
		phases := 1 + r.Intn(2)
		for ph := 0; ph < phases; ph++ {
			ns := 3 + r.Intn(8)
			for i := 0; i < ns; i++ {
				uid++
				ln := 4 + r.Intn(30)
				if tier == "thorough" {
					ln = 8 + r.Intn(80)
				}
				fmt.Fprintf(w, "script %d %s %s\n", uid, Hx(Pick(r, eps)), genScript(r, ln))
			}
			for _, k := range loadKinds {
				if r.Intn(10) != 0 {
					fmt.Fprintf(w, "load %s\n", k)
				}
			}
			nops := 40 + r.Intn(120)
			if tier == "thorough" {
				nops = 100 + r.Intn(400)
			}
			fmt.Fprintf(w, "run %d %d %d\n", r.Int63n(1<<40), 8+r.Intn(9), nops)
		}
	}
}

// ------------------------------------------------------------------------------ worker

type fakeUp struct {
	id int
	ep string
}

func (u *fakeUp) EndpointID() string      { return u.ep }
func (u *fakeUp) Dial() (net.Conn, error) { return nil, fmt.Errorf("not dialable") }
func (u *fakeUp) Forward() bool           { return false }

// sinkConn is the packet listener's socket: replies are encoded and "sent" into the void.
type sinkConn struct{ n atomic.Int64 }

func (s *sinkConn) ReadFrom(p []byte) (int, net.Addr, error) { select {} }
func (s *sinkConn) WriteTo(p []byte, _ net.Addr) (int, error) {
	s.n.Add(int64(len(p)))
	return len(p), nil
}
func (s *sinkConn) Close() error                     { return nil }
func (s *sinkConn) LocalAddr() net.Addr              { return &net.UDPAddr{} }
func (s *sinkConn) SetDeadline(time.Time) error      { return nil }
func (s *sinkConn) SetReadDeadline(time.Time) error  { return nil }
func (s *sinkConn) SetWriteDeadline(time.Time) error { return nil }

type script struct {
	up  *fakeUp
	ops string
}

type node struct {
	id    string
	cs    *cluster.State
	sy    *sgossip.VSyncer
	fd    *pgossip.VAccrualFD
	gs    *pgossip.VState
	mgr   *upstream.LoadBalancedManager
	pl    *pgossip.VPacketListener
	srv   *upstream.Server
	sink  *sinkConn
	eps   map[string]bool
	ref   map[string]int // "uid/ep" -> how many times registered (harness reference)
	ups   map[string]*fakeUp
	pend  []script
	loads []string
	ver   [4]atomic.Uint64 // version counters of the fake peers
	prog  atomic.Int64     // operations completed by all goroutines of the current run
	hung  bool
}

type wout struct {
	mu sync.Mutex
	w  *bufio.Writer
	n  map[string]int
}

func (o *wout) fail(prop, clause, detail string) {
	o.mu.Lock()
	defer o.mu.Unlock()
	if o.n[clause] >= 3 {
		return
	}
	o.n[clause]++
	fmt.Fprintf(o.w, "F %s %s %s\n", prop, clause, strings.Join(strings.Fields(detail), " "))
}

func (o *wout) count(k string, n int) {
	o.mu.Lock()
	defer o.mu.Unlock()
	fmt.Fprintf(o.w, "C %s %d\n", k, n)
}

func pikoFrames(stack string) string {
	var keep []string
	for _, m := range rePikoFn.FindAllStringSubmatch(stack, 4) {
		keep = append(keep, m[1])
	}
	return strings.Join(keep, " <- ")
}

// WorkerMain is `h-conc worker`: executes the op lines of ONE case on a real node.
func WorkerMain() {
	out := &wout{w: bufio.NewWriterSize(os.Stdout, 1<<16), n: map[string]int{}}
	sc := bufio.NewScanner(os.Stdin)
	sc.Buffer(make([]byte, 1<<20), 1<<26)
	var n *node
	fmt.Fprintln(out.w, "READY")
	_ = out.w.Flush()
	for sc.Scan() {
		ws := strings.Fields(sc.Text())
		if len(ws) < 2 {
			continue
		}
		seq, ws := ws[0], ws[1:]
		if ws[0] == "!" { // first op of a case
			n, ws = nil, ws[1:]
			if len(ws) == 0 {
				continue
			}
		}
		line := func() (line string) {
			defer func() {
				if r := recover(); r != nil {
					out.fail("C20", "panic", fmt.Sprintf("%v in op %s: %s", r, ws[0], pikoFrames(string(debug.Stack()))))
					line = "panic"
				}
			}()
			switch {
			case ws[0] == "init" && len(ws) == 4:
				n = newNode(Unhx(ws[1]), Unhx(ws[2]), Unhx(ws[3]))
				return "ok"
			case ws[0] == "script" && len(ws) == 4 && n != nil:
				if _, err := strconv.Atoi(ws[1]); err != nil {
					return "skip"
				}
				n.pend = append(n.pend, script{up: n.up(Atoi(ws[1]), Unhx(ws[2])), ops: ws[3]})
				return "ok"
			case ws[0] == "load" && len(ws) == 2 && n != nil:
				n.loads = append(n.loads, ws[1])
				return "skip"
			case ws[0] == "fdorder" && len(ws) == 3:
				fdOrder(time.Duration(Atoi(ws[1]))*time.Microsecond, time.Duration(Atoi(ws[2]))*time.Microsecond, out)
				return "skip"
			case ws[0] == "run" && len(ws) == 4 && n != nil:
				seed, _ := strconv.ParseInt(ws[1], 10, 64)
				return n.run(seed, Atoi(ws[2]), Atoi(ws[3]), out)
			}
			return "skip"
		}()
		// everything the race runtime reported so far precedes this token on stderr
		fmt.Fprintf(os.Stderr, "#SYNC %s\n", seq)
		out.mu.Lock()
		fmt.Fprintf(out.w, "R %s\n", line)
		_ = out.w.Flush()
		out.mu.Unlock()
		if n != nil && n.hung { // stuck goroutines cannot be removed: this process is done
			os.Exit(3)
		}
	}
}

// fdOrder documents finding F8 (fixed in /repo by 47223ec).  Before the fix Report and
// SuspicionLevel sampled time.Now() BEFORE taking the detector's mutex: a Report stalled there
// for >= the bootstrap interval while the liveness task (UpdateLiveness -> SuspicionLevel)
// evaluated the same node for the first time found the window created with the later
// timestamp, added a NEGATIVE interval (mean <= 0), and the next liveness tick panicked in
// arrivalWindow.Phi on the scheduleFunc goroutine (no recover).  This op replays that
// linearisation through the injectable entry points ReportWithTimestamp / SuspicionLevelAt
// with hand-made out-of-order timestamps.  Those entry points still accept any timestamps by
// design, so the panic here is NOT an oracle failure (it is counted only); the regression for
// the real entry points is the `fdfirst` load of `run`.
func fdOrder(bootstrap, stall time.Duration, out *wout) {
	defer func() {
		if r := recover(); r != nil {
			out.count("fdorder:injectable-api-panics-on-out-of-order-timestamps", 1)
		}
	}()
	fd := pgossip.VNewAccrualFD(bootstrap, 50)
	t1 := time.Unix(1700000000, 0)                        // Report: timestamp := time.Now() … stalled before d.mu.Lock()
	_ = fd.SuspicionLevelAt("p", t1.Add(stall))           // liveness task: no window yet -> created at t1+stall
	fd.ReportWithTimestamp("p", t1)                       // Report resumes: interval = -stall
	_ = fd.SuspicionLevelAt("p", t1.Add(stall+bootstrap)) // next liveness tick
}

// fdFirst is the real-entry-point regression for F8: the packet goroutine's Report(id) and the
// liveness task's SuspicionLevel(id) meet on a node neither has seen (both called through the
// production methods, which read the clock themselves), for `nops` fresh ids, on a real
// detector whose bootstrap interval is the smallest possible so that any inversion between
// "clock read" and "mutex taken" makes the mean non-positive; SuspicionLevel of the previous
// id then panics.  With the clock read under the mutex no inversion exists.
func fdFirst(nops int, prog *atomic.Int64, out *wout) {
	fd := pgossip.VNewAccrualFD(time.Nanosecond, 50)
	ch := make(chan int)
	var wg sync.WaitGroup
	wg.Add(1)
	go func() { // the liveness task
		defer wg.Done()
		defer func() {
			if r := recover(); r != nil {
				out.fail("C20", "panic", fmt.Sprintf("%v in liveness goroutine racing Report on a first-seen node: %s", r, pikoFrames(string(debug.Stack()))))
				for range ch { // let the reporter finish
				}
			}
		}()
		for i := range ch {
			_ = fd.SuspicionLevel("x" + strconv.Itoa(i))
			if i > 0 {
				_ = fd.SuspicionLevel("x" + strconv.Itoa(i-1))
			}
		}
	}()
	for i := 0; i < nops; i++ { // the packet listener
		prog.Add(1)
		ch <- i
		fd.Report("x" + strconv.Itoa(i))
	}
	close(ch)
	wg.Wait()
}

func newNode(id, proxy, admin string) *node {
	n := &node{id: id, eps: map[string]bool{}, ref: map[string]int{}, ups: map[string]*fakeUp{}, sink: &sinkConn{}}
	nop := log.NewNopLogger()
	n.cs = cluster.NewState(&cluster.Node{ID: id, ProxyAddr: proxy, AdminAddr: admin}, nop)
	n.sy = sgossip.VNewSyncer(n.cs, nop)
	// bootstrap interval of 2 ms (production: 2 x gossip interval): peers flip between
	// reachable and unreachable within a run, so OnUnreachable/OnReachable/OnExpired happen
	n.fd = pgossip.VNewAccrualFD(2*time.Millisecond, 50)
	n.gs = pgossip.VNewClusterState(id, "", n.fd, n.sy)
	n.sy.Sync(n.gs)
	n.mgr = upstream.NewLoadBalancedManager(n.cs, nil)
	n.pl = pgossip.VNewPacketListener(n.sink, n.gs, n.fd, 1400)
	n.srv = upstream.NewServer(n.mgr, nil, nil, n.cs, config.UpstreamConfig{
		Rebalance: config.RebalanceConfig{Threshold: 0.5, ShedRate: 0.5, MinConns: 1},
	}, nop)
	return n
}

func (n *node) up(uid int, ep string) *fakeUp {
	k := strconv.Itoa(uid) + "/" + ep
	u, ok := n.ups[k]
	if !ok {
		u = &fakeUp{id: uid, ep: ep}
		n.ups[k] = u
	}
	n.eps[ep] = true
	return u
}

var peerIDs = []string{"p1", "p2", "p3", "p4"}

func peerAddr(i int) string { return "127.0.0.1:" + strconv.Itoa(9001+i) }

// genDelta makes the next few versions of fake peer p (owner-ordered; goroutines may deliver
// them out of order, which the state machine must tolerate).
func (n *node) genDelta(r *rand.Rand, p int, eps []string) pgossip.VDelta {
	k := 1 + r.Intn(4)
	var es []pgossip.Entry
	for i := 0; i < k; i++ {
		v := n.ver[p].Add(1)
		var en pgossip.Entry
		switch x := r.Intn(100); {
		case x < 15:
			en = pgossip.Entry{Key: "proxy_addr", Value: "10.1.0." + strconv.Itoa(p) + ":8000"}
		case x < 30:
			en = pgossip.Entry{Key: "admin_addr", Value: "10.1.0." + strconv.Itoa(p) + ":8002"}
		case x < 75:
			en = pgossip.Entry{Key: "endpoint:" + Pick(r, eps), Value: strconv.Itoa(r.Intn(4))}
		case x < 92:
			en = pgossip.Entry{Key: "endpoint:" + Pick(r, eps), Deleted: true}
		case x < 97:
			en = pgossip.Entry{Key: pgossip.VCompactKey, Value: strconv.FormatUint(v-uint64(r.Intn(3))-1, 10), Internal: true}
		default:
			en = pgossip.Entry{Key: pgossip.VLeftKey, Internal: true}
		}
		en.Version = v
		es = append(es, en)
	}
	return pgossip.VDelta{{ID: peerIDs[p], Addr: peerAddr(p), Entries: es}}
}

func (n *node) genDigest(r *rand.Rand) pgossip.VDigest {
	var d pgossip.VDigest
	for p := range peerIDs {
		if r.Intn(3) != 0 {
			d = append(d, pgossip.VDigestEntry{ID: peerIDs[p], Addr: peerAddr(p), Version: n.ver[p].Load(), Left: r.Intn(20) == 0})
		}
	}
	if r.Intn(4) == 0 {
		d = append(d, pgossip.VDigestEntry{ID: n.id, Addr: "", Version: uint64(r.Intn(5))})
	}
	if r.Intn(6) == 0 {
		d = append(d, pgossip.VDigestEntry{ID: "px" + strconv.Itoa(r.Intn(3)), Addr: "127.0.0.1:9100", Version: uint64(r.Intn(5))})
	}
	return d
}

// role is one goroutine's work: `nops` operations.
type role func(r *rand.Rand, nops int, out *wout)

func (n *node) roles(eps []string) map[string]role {
	pickEp := func(r *rand.Rand) string {
		if r.Intn(8) == 0 {
			return "nowhere"
		}
		return Pick(r, eps)
	}
	return map[string]role{
		// request routing
		"sel": func(r *rand.Rand, nops int, out *wout) {
			for i := 0; i < nops; i++ {
				n.prog.Add(1)
				ep := pickEp(r)
				u, ok := n.mgr.Select(ep, r.Intn(2) == 0)
				if ok && u == nil {
					out.fail("C20", "select-nil-true", Hx(ep))
				}
				if u != nil && u.EndpointID() != ep {
					out.fail("C20", "select-wrong-endpoint", Hx(ep)+" got "+Hx(u.EndpointID()))
				}
				if i%16 == 0 {
					_ = n.mgr.Endpoints()
				}
			}
		},
		// the UDP listener goroutine (production has exactly one): real encoded packets
		// through the real handlePacket (decode, failure-detector Report, ApplyDigest /
		// ApplyDelta, Delta and Digest replies encoded and written to the socket)
		"packet": func(r *rand.Rand, nops int, out *wout) {
			for i := 0; i < nops; i++ {
				n.prog.Add(1)
				p := r.Intn(3)
				var b []byte
				var err error
				if r.Intn(3) == 0 {
					b, err = pgossip.VEncodeDigest(pgossip.VDigestHeader{NodeID: peerIDs[p], Addr: peerAddr(p), Request: r.Intn(2) == 0}, n.genDigest(r), 1400)
				} else {
					b, err = pgossip.VEncodeDelta(pgossip.VDeltaHeader{NodeID: peerIDs[p], Addr: peerAddr(p)}, n.genDelta(r, p, eps), 1400)
				}
				if err != nil {
					out.fail("C20", "harness-encode", err.Error())
					return
				}
				if err := pgossip.VHandlePacket(n.pl, b); err != nil {
					out.fail("C20", "packet-rejected", err.Error())
				}
			}
		},
		// the stream (join/leave) handlers: decode then ApplyDelta/ApplyDigest + replies
		"stream": func(r *rand.Rand, nops int, out *wout) {
			for i := 0; i < nops; i++ {
				n.prog.Add(1)
				p := 1 + r.Intn(3)
				b, err := pgossip.VEncodeDelta(pgossip.VDeltaHeader{NodeID: peerIDs[p], Addr: peerAddr(p)}, n.genDelta(r, p, eps), 1400)
				if err != nil {
					out.fail("C20", "harness-encode", err.Error())
					return
				}
				_, d, err := pgossip.VDecodeDelta(b)
				if err != nil {
					out.fail("C20", "harness-decode", err.Error())
					return
				}
				n.gs.ApplyDelta(d)
				if r.Intn(3) == 0 {
					b, err := pgossip.VEncodeDigest(pgossip.VDigestHeader{NodeID: peerIDs[p], Addr: peerAddr(p)}, n.genDigest(r), 1400)
					if err == nil {
						if _, dg, err := pgossip.VDecodeDigest(b); err == nil {
							n.gs.ApplyDigest(dg)
							_ = n.gs.Delta(dg, true)
						}
					}
				}
			}
		},
		// the gossip round: digest / delta reads and encoding
		"out": func(r *rand.Rand, nops int, out *wout) {
			for i := 0; i < nops; i++ {
				n.prog.Add(1)
				switch r.Intn(4) {
				case 0:
					d := n.gs.Digest()
					if _, err := pgossip.VEncodeDigest(pgossip.VDigestHeader{NodeID: n.id}, d, 1400); err != nil {
						out.fail("C20", "encode-digest", err.Error())
					}
				case 1:
					d := n.gs.Delta(n.genDigest(r), r.Intn(2) == 0)
					if _, err := pgossip.VEncodeDelta(pgossip.VDeltaHeader{NodeID: n.id}, d, 1400); err != nil {
						out.fail("C20", "encode-delta", err.Error())
					}
				case 2:
					_ = n.gs.LocalDelta()
					_ = n.gs.LocalNodeMetadata()
				case 3:
					_ = n.gs.LiveNodes()
					_ = n.gs.UnreachableNodes()
				}
			}
		},
		// the periodic tasks
		"periodic": func(r *rand.Rand, nops int, out *wout) {
			for i := 0; i < nops; i++ {
				n.prog.Add(1)
				switch r.Intn(5) {
				case 0, 1:
					n.gs.UpdateLiveness(float64(pgossip.VSuspicionThreshold))
				case 2:
					n.gs.CompactLocal(1)
				case 3:
					if r.Intn(2) == 0 {
						n.gs.RemoveExpiredAt(time.Now().Add(90 * time.Second))
					} else {
						n.gs.RemoveExpiredAt(time.Now().Add(-time.Hour))
					}
				case 4:
					n.srv.Rebalance()
				}
			}
		},
		// admin status reads
		"status": func(r *rand.Rand, nops int, out *wout) {
			sum := 0
			for i := 0; i < nops; i++ {
				n.prog.Add(1)
				switch r.Intn(9) {
				case 0:
					for _, nd := range n.cs.Nodes() {
						for _, c := range nd.Endpoints {
							sum += c
						}
					}
				case 1:
					sum += len(n.cs.NodesMetadata())
				case 2:
					if nd, ok := n.cs.LookupEndpoint(pickEp(r)); ok {
						sum += len(nd.Endpoints)
					}
				case 3:
					sum += n.cs.AvgConns()
				case 4:
					sum += len(n.cs.LocalNode().Endpoints)
					sum += n.cs.LocalEndpointListeners(pickEp(r))
				case 5:
					if nd, ok := n.cs.Node(peerIDs[r.Intn(4)]); ok {
						sum += len(nd.Endpoints)
					}
				case 6:
					sum += len(n.gs.Nodes())
					if st, ok := n.gs.Node(peerIDs[r.Intn(4)]); ok {
						sum += len(st.Entries)
					}
				case 7:
					sum += len(n.gs.LocalNode().Entries)
					sum += len(sgossip.VPendingIDs(n.sy))
				case 8:
					sum += len(n.mgr.Endpoints())
				}
			}
			_ = sum
		},
		// F8 regression (see fdFirst)
		"fdfirst": func(r *rand.Rand, nops int, out *wout) { fdFirst(nops, &n.prog, out) },
		// liveness evaluation outside UpdateLiveness.  Reads only: in production Report has a
		// single caller (the packet goroutine) and Remove is only called by RemoveExpiredAt.
		"fd": func(r *rand.Rand, nops int, out *wout) {
			for i := 0; i < nops; i++ {
				n.prog.Add(1)
				_ = n.fd.SuspicionLevel(peerIDs[r.Intn(4)])
			}
		},
	}
}

func (n *node) stores() (reg, loc, adv map[string]int, bad string) {
	reg = n.mgr.Endpoints()
	loc = n.cs.LocalNode().Endpoints
	adv = map[string]int{}
	for _, en := range n.gs.LocalNode().Entries {
		if en.Internal || en.Deleted || !strings.HasPrefix(en.Key, "endpoint:") {
			continue
		}
		c, err := strconv.Atoi(en.Value)
		if err != nil {
			bad = Hx(en.Key) + "=" + Hx(en.Value)
			continue
		}
		adv[strings.TrimPrefix(en.Key, "endpoint:")] = c
	}
	return
}

func (n *node) run(seed int64, G, nops int, out *wout) string {
	if G < 2 {
		G = 2
	}
	if G > 64 {
		G = 64
	}
	var eps []string
	for ep := range n.eps {
		eps = append(eps, ep)
	}
	sort.Strings(eps)
	if len(eps) == 0 {
		eps = []string{"e"}
	}
	roles := n.roles(eps)
	// script goroutines: each upstream's script is owned by exactly one goroutine
	nScript := G / 3
	if nScript < 2 {
		nScript = 2
	}
	if nScript > len(n.pend) {
		nScript = len(n.pend)
	}
	owned := make([][]script, nScript)
	for i, s := range n.pend {
		owned[i%nScript] = append(owned[i%nScript], s)
	}
	type job struct {
		name string
		f    func(r *rand.Rand)
	}
	var jobs []job
	for i := range owned {
		mine := owned[i]
		jobs = append(jobs, job{"script", func(r *rand.Rand) {
			pos := make([]int, len(mine))
			left := 0
			for _, s := range mine {
				left += len(s.ops)
			}
			for left > 0 {
				k := r.Intn(len(mine))
				if pos[k] >= len(mine[k].ops) {
					continue
				}
				if mine[k].ops[pos[k]] == '+' {
					n.mgr.AddConn(mine[k].up)
				} else {
					n.mgr.RemoveConn(mine[k].up)
				}
				pos[k]++
				left--
				n.prog.Add(1)
			}
		}})
	}
	// background load: the requested kinds, round-robin over the remaining goroutines; the
	// packet listener is a single goroutine
	var kinds []string
	seenKind := map[string]bool{}
	for _, k := range n.loads {
		if _, ok := roles[k]; ok && !seenKind[k] {
			seenKind[k] = true
			kinds = append(kinds, k)
		}
	}
	for i, havePacket := 0, false; len(kinds) > 0 && len(jobs) < G; i++ {
		k := kinds[i%len(kinds)]
		if k == "packet" {
			if havePacket {
				if len(kinds) == 1 {
					break
				}
				continue
			}
			havePacket = true
		}
		f := roles[k]
		jobs = append(jobs, job{k, func(r *rand.Rand) { f(r, nops, out) }})
	}
	// the harness reference for the registry
	for _, s := range n.pend {
		k := strconv.Itoa(s.up.id) + "/" + s.up.ep
		for _, c := range s.ops {
			if c == '+' {
				n.ref[k]++
			} else if n.ref[k] > 0 {
				n.ref[k]--
			}
		}
	}
	n.pend, n.loads = nil, nil

	start := make(chan struct{})
	var wg sync.WaitGroup
	for i, j := range jobs {
		wg.Add(1)
		go func(i int, j job) {
			defer wg.Done()
			defer func() {
				if r := recover(); r != nil {
					out.fail("C20", "panic", fmt.Sprintf("%v in %s goroutine: %s", r, j.name, pikoFrames(string(debug.Stack()))))
				}
			}()
			r := rand.New(rand.NewSource(seed + int64(i)*7919))
			<-start
			j.f(r)
		}(i, j)
	}
	close(start)
	// per-operation watchdog: every goroutine bumps n.prog once per operation; 30 consecutive
	// 100 ms ticks of this goroutine without any progress while goroutines are still running
	// = some operation did not complete in 3 s of process run time.
	done := make(chan struct{})
	go func() { wg.Wait(); close(done) }()
	last, idle := int64(-1), 0
wait:
	for {
		select {
		case <-done:
			break wait
		case <-time.After(100 * time.Millisecond):
		}
		if cur := n.prog.Load(); cur != last {
			last, idle = cur, 0
		} else if idle++; idle >= 30 {
			buf := make([]byte, 1<<22)
			buf = buf[:runtime.Stack(buf, true)]
			_, _ = os.Stderr.Write(buf)
			out.fail("C20", "deadlock-or-hang", "no operation completed for 3 s with goroutines still running: "+oneLine(blockedSummary(string(buf)), 1200))
			n.hung = true
			return "hang"
		}
	}
	out.count("goroutines", len(jobs))
	for _, j := range jobs {
		out.count("role:"+j.name, 1)
	}
	out.count("packet-bytes-out", int(n.sink.n.Load()))

	// quiescence: the three stores must agree with each other and with the reference
	reg, loc, adv, bad := n.stores()
	if bad != "" {
		out.fail("C20", "advertised-not-a-count", bad)
	}
	want := map[string]int{}
	for k, c := range n.ref {
		if c > 0 {
			want[k[strings.Index(k, "/")+1:]] += c
		}
	}
	if ShowCounts(reg) != ShowCounts(want) {
		out.fail("C20", "quiescent-registry-vs-reference", "registry="+ShowCounts(reg)+" reference="+ShowCounts(want))
	}
	if ShowCounts(reg) != ShowCounts(loc) {
		out.fail("C20", "quiescent-registry-vs-cluster", "registry="+ShowCounts(reg)+" cluster="+ShowCounts(loc))
	}
	if ShowCounts(reg) != ShowCounts(adv) {
		out.fail("C20", "quiescent-registry-vs-advertised", "registry="+ShowCounts(reg)+" advertised="+ShowCounts(adv))
	}
	return "q eps=" + ShowCounts(reg) + " local=" + ShowCounts(loc) + " adv=" + ShowCounts(adv)
}
