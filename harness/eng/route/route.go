// Package route is the correspondence engine for request routing across nodes (C06, C01):
// N real proxy.Server instances on loopback, each with a real LoadBalancedManager and a
// real cluster.State holding a generated (mutually inconsistent) view of the others.
package route

import (
	"bufio"
	"context"
	"encoding/json"
	"fmt"
	"io"
	"math/rand"
	"net"
	"net/http"
	"net/textproto"
	"runtime"
	"sort"
	"strconv"
	"strings"
	"sync"
	"sync/atomic"
	"syscall"
	"time"

	. "verifharness/core"

	"github.com/prometheus/client_golang/prometheus"

	"github.com/andydunstall/piko/pkg/auth"
	"github.com/andydunstall/piko/pkg/log"
	"github.com/andydunstall/piko/server/cluster"
	"github.com/andydunstall/piko/server/config"
	"github.com/andydunstall/piko/server/proxy"
	"github.com/andydunstall/piko/server/upstream"
)

const (
	reqWatchdog = 5 * time.Second
	// safety valve of the harness: a request that makes the cluster accept more than this
	// many proxy connections (a forwarding loop) is cut by closing further connections.
	maxConnsPerReq = 12
)

// ---------------------------------------------------------------------------- fake upstream

// fakeUp is a locally connected upstream: Dial returns one side of an in-memory pipe whose
// other side is served by a stamping HTTP responder (HTTP route) or a stamping byte stream
// (TCP route).  The stamp says which node, which upstream and which endpoint got the request.
type fakeUp struct {
	eng  *routeEngine
	node int
	id   int
	ep   string
	// gone: the listener stopped accepting (client.Listener.Close sends a yamux GoAway but
	// keeps the session): Dial answers upstream.ErrGone while the upstream is still registered.
	gone int32
}

func (u *fakeUp) EndpointID() string { return u.ep }
func (u *fakeUp) Forward() bool      { return false }

func (u *fakeUp) stamp() string {
	return fmt.Sprintf("stamp:n%d;%d;%s", u.node, u.id, Hx(u.ep))
}

func (u *fakeUp) Dial() (net.Conn, error) {
	if atomic.LoadInt32(&u.gone) != 0 {
		u.eng.mu.Lock()
		u.eng.goneDialed = append(u.eng.goneDialed, upKey{node: u.node, uid: u.id, ep: u.ep})
		u.eng.mu.Unlock()
		return nil, upstream.ErrGone
	}
	a, b := net.Pipe()
	kind := u.eng.curKind.Load().(string)
	u.eng.mu.Lock()
	u.eng.deliveries = append(u.eng.deliveries, u.stamp())
	u.eng.mu.Unlock()
	go func() {
		defer b.Close()
		_ = b.SetDeadline(time.Now().Add(reqWatchdog))
		if kind == "tcp" {
			_, _ = b.Write([]byte(u.stamp()))
			_, _ = io.Copy(io.Discard, b)
			return
		}
		br := bufio.NewReader(b)
		req, err := http.ReadRequest(br)
		if err != nil {
			return
		}
		_, _ = io.Copy(io.Discard, req.Body)
		body := u.stamp()
		fmt.Fprintf(b, "HTTP/1.1 200 OK\r\nContent-Type: text/plain\r\nContent-Length: %d\r\nConnection: close\r\n\r\n%s", len(body), body)
	}()
	return a, nil
}

// ---------------------------------------------------------------------------- counting listener

type countLn struct {
	net.Listener
	eng *routeEngine
	idx int
}

func (l *countLn) Accept() (net.Conn, error) {
	for {
		c, err := l.Listener.Accept()
		if err != nil {
			return c, err
		}
		atomic.AddInt64(&l.eng.accepted[l.idx], 1)
		if atomic.AddInt64(&l.eng.totalAccepted, 1) > maxConnsPerReq {
			_ = c.Close()
			continue
		}
		return c, nil
	}
}

// ---------------------------------------------------------------------------- engine

type node struct {
	idx  int
	id   string
	cs   *cluster.State
	mgr  *upstream.LoadBalancedManager
	srv  *proxy.Server
	ln   *countLn
	addr string
	reg  *prometheus.Registry
}

type upKey struct {
	node, uid int
	ep        string
}

// tokenVerifier accepts exactly the harness token (no endpoint restriction, no expiry).
type tokenVerifier struct{}

const harnessToken = "verif-token"

func (tokenVerifier) Verify(token string) (*auth.Token, error) {
	if token != harnessToken {
		return nil, auth.ErrInvalidToken
	}
	return &auth.Token{}, nil
}

// nodeCfg is the generated (legal) configuration of one node's proxy server.
type nodeCfg struct {
	conf config.ProxyConfig
	auth bool
}

type routeEngine struct {
	cfgs     map[int]*nodeCfg
	authOn   bool
	nodes    []*node
	deadAddr string
	deadFd   int
	ups      map[upKey]*fakeUp
	order    []upKey // registered upstreams in registration order (reference registry)

	accepted      [8]int64
	totalAccepted int64
	curKind       atomic.Value
	mu            sync.Mutex
	deliveries    []string
	goneDialed    []upKey
}

// New returns the engine.
func New() Engine {
	// the check runs one harness process per shard: keep each one small so that a loaded
	// machine is not oversubscribed further (requests are sequential anyway)
	runtime.GOMAXPROCS(4)
	e := &routeEngine{}
	e.curKind.Store("http")
	return e
}

func (e *routeEngine) shutdown() {
	for _, n := range e.nodes {
		ctx, cancel := context.WithTimeout(context.Background(), 100*time.Millisecond)
		_ = n.srv.Shutdown(ctx)
		cancel()
		_ = n.ln.Close()
	}
	e.nodes = nil
	if e.deadFd > 0 {
		_ = syscall.Close(e.deadFd)
		e.deadFd = 0
	}
}

func (e *routeEngine) Reset() {
	e.shutdown()
	e.cfgs = map[int]*nodeCfg{}
	e.authOn = false
	e.ups = map[upKey]*fakeUp{}
	e.order = nil
}

func nid(i int) string { return "n" + strconv.Itoa(i) }

func (e *routeEngine) mkNodes(n int) {
	e.shutdown()
	e.ups = map[upKey]*fakeUp{}
	e.order = nil
	// an address nobody listens on: a socket that is bound (so that no other process or case
	// can be given the port while the case runs) but never listens - connects are refused
	// (no SO_REUSEADDR on purpose: a listener must never be handed this port; without it a bind
	// to port 0 fails while the ephemeral range is full of TIME_WAIT sockets - wait that out)
	var fd int
	var sa syscall.Sockaddr
	for try := 0; ; try++ {
		var err error
		fd, err = syscall.Socket(syscall.AF_INET, syscall.SOCK_STREAM, 0)
		if err == nil {
			if err = syscall.Bind(fd, &syscall.SockaddrInet4{Addr: [4]byte{127, 0, 0, 1}}); err == nil {
				sa, err = syscall.Getsockname(fd)
			}
			if err != nil {
				_ = syscall.Close(fd)
			}
		}
		if err == nil {
			break
		}
		if try >= 300 {
			panic(err)
		}
		time.Sleep(time.Duration(100+try*10) * time.Millisecond)
	}
	e.deadFd = fd
	e.deadAddr = "127.0.0.1:" + strconv.Itoa(sa.(*syscall.SockaddrInet4).Port)
	for i := 0; i < n; i++ {
		conf := defaultConf()
		var verifier *auth.MultiTenantVerifier
		if c, ok := e.cfgs[i]; ok {
			conf = c.conf
			if c.auth {
				verifier = auth.NewMultiTenantVerifier(tokenVerifier{}, nil)
				e.authOn = true
			}
		}
		if err := conf.AccessLog.Validate(); err != nil {
			panic("generated configuration is not legal: " + err.Error())
		}
		ln, err := ListenRetry("tcp", "127.0.0.1:0")
		if err != nil {
			panic(err)
		}
		nd := &node{idx: i, id: nid(i), addr: ln.Addr().String()}
		nd.ln = &countLn{Listener: ln, eng: e, idx: i}
		nd.cs = cluster.NewState(&cluster.Node{ID: nd.id, ProxyAddr: nd.addr}, log.NewNopLogger())
		nd.mgr = upstream.NewLoadBalancedManager(nd.cs, nil)
		nd.reg = prometheus.NewRegistry()
		nd.reg.MustRegister(nd.mgr.Metrics().RemoteRequestsTotal)
		nd.srv = proxy.NewServer(nd.mgr, conf, nil, verifier, nil, log.NewNopLogger())
		go func() { _ = nd.srv.Serve(nd.ln) }()
		e.nodes = append(e.nodes, nd)
	}
}

func defaultConf() config.ProxyConfig {
	conf := config.Default().Proxy
	conf.Timeout = 3 * time.Second
	return conf
}

// parseCfg: cfg <i> al=<0|1> lvl=<level> qa=<hex,..> qb=.. pa=.. pb=.. to=<ms> rt=<ms> rht=<ms> wt=<ms> it=<ms> mhb=<n> auth=<0|1>
func parseCfg(ws []string) *nodeCfg {
	c := &nodeCfg{conf: defaultConf()}
	ms := func(v string) time.Duration { return time.Duration(Atoi(v)) * time.Millisecond }
	for _, kv := range ws {
		p := strings.SplitN(kv, "=", 2)
		if len(p) != 2 {
			continue
		}
		switch p[0] {
		case "al":
			c.conf.AccessLog.Disable = p[1] == "0"
		case "lvl":
			c.conf.AccessLog.Level = p[1]
		case "qa":
			c.conf.AccessLog.RequestHeaders.AllowList = listTok(p[1])
		case "qb":
			c.conf.AccessLog.RequestHeaders.BlockList = listTok(p[1])
		case "pa":
			c.conf.AccessLog.ResponseHeaders.AllowList = listTok(p[1])
		case "pb":
			c.conf.AccessLog.ResponseHeaders.BlockList = listTok(p[1])
		case "to":
			c.conf.Timeout = ms(p[1])
		case "rt":
			c.conf.HTTP.ReadTimeout = ms(p[1])
		case "rht":
			c.conf.HTTP.ReadHeaderTimeout = ms(p[1])
		case "wt":
			c.conf.HTTP.WriteTimeout = ms(p[1])
		case "it":
			c.conf.HTTP.IdleTimeout = ms(p[1])
		case "mhb":
			c.conf.HTTP.MaxHeaderBytes = Atoi(p[1])
		case "auth":
			c.auth = p[1] == "1"
		}
	}
	return c
}

// realAddr maps the symbolic address of an op line to the real one.
func (e *routeEngine) realAddr(sym string) string {
	if sym == "dead" {
		return e.deadAddr
	}
	if strings.HasPrefix(sym, "a") {
		if i, err := strconv.Atoi(sym[1:]); err == nil && i >= 0 && i < len(e.nodes) {
			return e.nodes[i].addr
		}
	}
	return e.deadAddr
}

func (e *routeEngine) up(k upKey) *fakeUp {
	u, ok := e.ups[k]
	if !ok {
		u = &fakeUp{eng: e, node: k.node, id: k.uid, ep: k.ep}
		e.ups[k] = u
	}
	return u
}

func (e *routeEngine) registered(nodeIdx int, ep string) []int {
	var ids []int
	for _, k := range e.order {
		if k.node == nodeIdx && k.ep == ep {
			ids = append(ids, k.uid)
		}
	}
	return ids
}

func status(s string) cluster.NodeStatus {
	if s == "unset" {
		return ""
	}
	return cluster.NodeStatus(s)
}

// remoteTotals reads piko_upstreams_remote_requests_total{node_id} of a node.
func remoteTotals(n *node) map[string]float64 {
	out := map[string]float64{}
	mfs, err := n.reg.Gather()
	if err != nil {
		return out
	}
	for _, mf := range mfs {
		for _, m := range mf.GetMetric() {
			for _, l := range m.GetLabel() {
				if l.GetName() == "node_id" {
					out[l.GetValue()] = m.GetCounter().GetValue()
				}
			}
		}
	}
	return out
}

// ---------------------------------------------------------------------------- the request

type reqSpec struct {
	entry          int
	kind           string
	host           string
	epHdr, fwdHdr  string
	hasEp, hasFwd  bool
	connRaw        []string
	pathEp         string
}

type reqResult struct {
	code   string // "ok", "400", "502", ..., "err"
	reason string
	stamp  string // "n1;3;<ephex>" when served
}

func reasonOf(body []byte) string {
	var m struct {
		Error string `json:"error"`
	}
	if json.Unmarshal(body, &m) != nil {
		return "other"
	}
	switch m.Error {
	case "no available upstreams":
		return "none"
	case "upstream unreachable":
		return "unreach"
	case "missing endpoint id":
		return "noep"
	case "upstream timeout":
		return "timeout"
	}
	return "other"
}

// do sends one raw HTTP/1.1 request (so that every header line, including several
// `Connection` lines in any case, goes out exactly as generated) and reads the answer.
func (e *routeEngine) do(r reqSpec) reqResult {
	c, err := net.DialTimeout("tcp", e.nodes[r.entry].addr, reqWatchdog)
	if err != nil {
		return reqResult{code: "err", reason: "dial"}
	}
	defer c.Close()
	_ = c.SetDeadline(time.Now().Add(reqWatchdog))
	var b strings.Builder
	path := "/some/path?a=b"
	if r.kind == "tcp" {
		path = "/_piko/v1/tcp/" + r.pathEp
	}
	fmt.Fprintf(&b, "GET %s HTTP/1.1\r\nHost: %s\r\n", path, r.host)
	if r.hasEp {
		fmt.Fprintf(&b, "x-piko-endpoint: %s\r\n", r.epHdr)
	}
	if r.hasFwd {
		fmt.Fprintf(&b, "x-piko-forward: %s\r\n", r.fwdHdr)
	}
	if e.authOn {
		fmt.Fprintf(&b, "Authorization: Bearer %s\r\n", harnessToken)
	}
	b.WriteString("User-Agent: verif-route\r\nX-Custom-Hdr: 1\r\n")
	for _, v := range r.connRaw {
		fmt.Fprintf(&b, "Connection: %s\r\n", v)
	}
	if r.kind == "tcp" {
		b.WriteString("Upgrade: websocket\r\nSec-WebSocket-Version: 13\r\nSec-WebSocket-Key: dGhlIHNhbXBsZSBub25jZQ==\r\n")
	} else {
		b.WriteString("Connection: close\r\n")
	}
	b.WriteString("\r\n")
	if _, err := c.Write([]byte(b.String())); err != nil {
		return reqResult{code: "err", reason: "write"}
	}
	br := bufio.NewReader(c)
	resp, err := http.ReadResponse(br, nil)
	if err != nil {
		return reqResult{code: "err", reason: "read"}
	}
	if resp.StatusCode == http.StatusSwitchingProtocols {
		// one unmasked server->client websocket frame carrying the stamp
		h := make([]byte, 2)
		if _, err := io.ReadFull(br, h); err != nil {
			return reqResult{code: "101", reason: "noframe"}
		}
		n := int(h[1] & 0x7f)
		if n == 126 {
			x := make([]byte, 2)
			if _, err := io.ReadFull(br, x); err != nil {
				return reqResult{code: "101", reason: "noframe"}
			}
			n = int(x[0])<<8 | int(x[1])
		}
		p := make([]byte, n)
		if _, err := io.ReadFull(br, p); err != nil {
			return reqResult{code: "101", reason: "noframe"}
		}
		if s := string(p); strings.HasPrefix(s, "stamp:") {
			return reqResult{code: "ok", reason: "-", stamp: strings.TrimPrefix(s, "stamp:")}
		}
		return reqResult{code: "101", reason: "nostamp"}
	}
	body, _ := io.ReadAll(resp.Body)
	_ = resp.Body.Close()
	if resp.StatusCode == http.StatusOK {
		if s := string(body); strings.HasPrefix(s, "stamp:") {
			return reqResult{code: "ok", reason: "-", stamp: strings.TrimPrefix(s, "stamp:")}
		}
		return reqResult{code: "200", reason: "nostamp"}
	}
	return reqResult{code: strconv.Itoa(resp.StatusCode), reason: reasonOf(body)}
}

// addressed is the endpoint a request addresses according to the property statement: the
// path endpoint on the TCP route; on the HTTP route the x-piko-endpoint header, else the
// first label of the Host name (port stripped; an IP or a single label names nothing).
func addressed(r reqSpec) string {
	if r.kind == "tcp" {
		return r.pathEp
	}
	if r.hasEp && r.epHdr != "" {
		return r.epHdr
	}
	h := r.host
	if hp, _, err := net.SplitHostPort(h); err == nil {
		h = hp
	}
	if h == "" || net.ParseIP(h) != nil || !strings.Contains(h, ".") {
		return ""
	}
	return h[:strings.Index(h, ".")]
}

// connOptions are the canonical header names listed by raw Connection header values.
func connOptions(raw []string) []string {
	var out []string
	for _, v := range raw {
		for _, t := range strings.Split(v, ",") {
			if t = textproto.TrimString(t); t != "" {
				out = append(out, textproto.CanonicalMIMEHeaderKey(t))
			}
		}
	}
	return out
}

func has(xs []string, x string) bool {
	for _, y := range xs {
		if y == x {
			return true
		}
	}
	return false
}

// settled reports whether every node's routing view is the truth about the others: a row
// for every other node, active, the node's real address, an endpoint counted > 0 exactly
// when that node has an upstream for it, and no rows about anything else.
func (e *routeEngine) settled() bool {
	for _, n := range e.nodes {
		seen := map[string]bool{}
		for _, row := range n.cs.Nodes() {
			if row.ID == n.id {
				continue
			}
			var m *node
			for _, k := range e.nodes {
				if k.id == row.ID {
					m = k
				}
			}
			if m == nil || row.Status != cluster.NodeStatusActive || row.ProxyAddr != m.addr {
				return false
			}
			seen[row.ID] = true
			eps := map[string]bool{}
			for ep, c := range row.Endpoints {
				if c > 0 {
					eps[ep] = true
				}
			}
			truth := map[string]bool{}
			for _, k := range e.order {
				if k.node == m.idx {
					truth[k.ep] = true
				}
			}
			if len(eps) != len(truth) {
				return false
			}
			for ep := range eps {
				if !truth[ep] {
					return false
				}
			}
		}
		if len(seen) != len(e.nodes)-1 {
			return false
		}
	}
	return true
}

func (e *routeEngine) req(r reqSpec, o *Out) string {
	for i := range e.accepted {
		atomic.StoreInt64(&e.accepted[i], 0)
	}
	atomic.StoreInt64(&e.totalAccepted, 0)
	e.mu.Lock()
	e.deliveries = nil
	e.goneDialed = nil
	e.mu.Unlock()
	e.curKind.Store(r.kind)
	before := make([]map[string]float64, len(e.nodes))
	for i, n := range e.nodes {
		before[i] = remoteTotals(n)
	}
	wasSettled := e.settled()

	res := e.do(r)
	// The client-side watchdog fired (machine overloaded): if the request provably had no
	// effect yet (no upstream was dialled, so no Select returned a local upstream, the only
	// call with a side effect), let things settle and send it again - at most three times.
	for attempt := 0; attempt < 3 && res.code == "err"; attempt++ {
		time.Sleep(300 * time.Millisecond)
		e.mu.Lock()
		untouched := len(e.deliveries) == 0 && len(e.goneDialed) == 0
		e.mu.Unlock()
		if !untouched {
			break
		}
		o.Count("retry-after-client-timeout")
		for i := range e.accepted {
			atomic.StoreInt64(&e.accepted[i], 0)
		}
		atomic.StoreInt64(&e.totalAccepted, 0)
		for i, n := range e.nodes {
			before[i] = remoteTotals(n)
		}
		res = e.do(r)
	}

	counts := make([]int, len(e.nodes))
	total := 0
	for i := range e.nodes {
		counts[i] = int(atomic.LoadInt64(&e.accepted[i]))
		total += counts[i]
	}
	var via []string
	viaSelf := false
	for i, n := range e.nodes {
		after := remoteTotals(n)
		for id, v := range after {
			for k := 0; k < int(v-before[i][id]); k++ {
				via = append(via, n.id+">"+id)
				if id == n.id {
					viaSelf = true
				}
			}
		}
	}
	sort.Strings(via)
	e.mu.Lock()
	deliveries := append([]string(nil), e.deliveries...)
	goneDialed := append([]upKey(nil), e.goneDialed...)
	e.mu.Unlock()
	// what was registered when the request was made (the oracle speaks about that moment)
	regBefore := append([]upKey(nil), e.order...)
	// an upstream that answered ErrGone is removed by the proxy (RemoveConn): reference registry
	for _, g := range goneDialed {
		for i, x := range e.order {
			if x == g {
				e.order = append(append([]upKey(nil), e.order[:i]...), e.order[i+1:]...)
				break
			}
		}
	}
	goneAt := func(nodeIdx int, ep string) bool {
		for _, g := range goneDialed {
			if g.node == nodeIdx && g.ep == ep {
				return true
			}
		}
		return false
	}
	registeredBefore := func(nodeIdx int, ep string) []int {
		var ids []int
		for _, k := range regBefore {
			if k.node == nodeIdx && k.ep == ep {
				ids = append(ids, k.uid)
			}
		}
		return ids
	}

	// ---- oracle, from the property statements, on what the real cluster did
	want := addressed(r)
	opts := connOptions(r.connRaw)
	detail := fmt.Sprintf("entry=n%d kind=%s host=%s ephdr=%v:%s fwd=%v:%s conn=%q pathep=%s -> %s/%s stamp=%s counts=%v via=%v",
		r.entry, r.kind, Hx(r.host), r.hasEp, Hx(r.epHdr), r.hasFwd, Hx(r.fwdHdr), r.connRaw, Hx(r.pathEp), res.code, res.reason, res.stamp, counts, via) +
		fmt.Sprintf(" gone-dialed=%v", goneDialed)
	o.Count("oracle:C06")
	o.Count("oracle:C01")
	// C06
	if total > 2 || len(via) > 1 {
		clause := "hops"
		if has(opts, "X-Piko-Forward") {
			clause = "forward-marker-stripped"
		}
		o.Fail("C06", clause, detail)
	}
	if len(deliveries) > 1 {
		o.Fail("C06", "amplified", detail)
	}
	if len(goneDialed) > 1 || (len(goneDialed) == 1 && res.code == "ok") {
		// the request was given to a second upstream after one answered ErrGone
		o.Fail("C06", "reselected-after-gone", detail)
	}
	for _, g := range goneDialed {
		// RemoveConn(u): the manager's count equals the reference registry without u
		if e.nodes[g.node].mgr.Endpoints()[g.ep] != len(e.registered(g.node, g.ep)) {
			o.Fail("C01", "gone-not-removed", detail)
		}
	}
	if viaSelf {
		o.Fail("C06", "self-id", detail)
	}
	if counts[r.entry] > 1 {
		own := false
		for _, row := range e.nodes[r.entry].cs.Nodes() {
			if row.ID != e.nodes[r.entry].id && row.ProxyAddr == e.nodes[r.entry].addr {
				own = true
			}
		}
		if !own {
			o.Fail("C06", "self-conn", detail)
		}
	}
	if r.hasFwd && r.fwdHdr == "true" && (total != 1 || len(via) != 0) {
		o.Fail("C06", "forwarded-terminal", detail)
	}
	stNode, stUID, stEp := -1, -1, ""
	if res.code == "ok" {
		p := strings.Split(res.stamp, ";")
		if len(p) == 3 {
			stNode, _ = strconv.Atoi(strings.TrimPrefix(p[0], "n"))
			stUID, _ = strconv.Atoi(p[1])
			stEp = Unhx(p[2])
		}
	}
	if want != "" && len(registeredBefore(r.entry, want)) > 0 {
		// served there - or, if the upstream it selected there answered ErrGone, 502 from there
		servedLocal := res.code == "ok" && stNode == r.entry
		goneLocal := res.code == "502" && goneAt(r.entry, want)
		if !(servedLocal || goneLocal) || total != 1 || len(via) != 0 {
			o.Fail("C06", "local-first", detail)
		}
		o.Count("c06:local")
	}
	if len(goneDialed) > 0 {
		o.Count("c06:gone-dialed")
		if len(via) > 0 {
			o.Count("c06:gone-dialed-after-hop")
		}
	}
	// C01
	if res.code == "ok" {
		if stEp != want {
			clause := "wrong-endpoint"
			if r.kind == "http" && has(opts, "X-Piko-Endpoint") {
				clause = "endpoint-header-stripped"
			}
			o.Fail("C01", clause, detail+" addressed="+Hx(want))
		}
		if !has1(registeredBefore(stNode, stEp), stUID) {
			o.Fail("C01", "not-registered", detail)
		}
		o.Count("c01:served")
		if stNode != r.entry {
			o.Count("c01:served-remote")
		}
	} else if res.code != "400" && res.code != "502" {
		o.Fail("C01", "unexpected-status", detail)
	}
	if r.kind == "http" && want == "" && res.code != "400" {
		o.Fail("C01", "no-endpoint-not-400", detail)
	}
	if want != "" && res.code == "400" {
		o.Fail("C01", "addressed-but-400", detail)
	}
	if wasSettled && want != "" && !(r.hasFwd && r.fwdHdr == "true") {
		any := false
		for _, k := range regBefore {
			if k.ep == want {
				any = true
			}
		}
		if any && res.code != "ok" && len(goneDialed) == 0 {
			o.Fail("C01", "settled-not-served", detail)
		}
		if !any && res.code != "502" {
			o.Fail("C01", "settled-no-upstream-not-502", detail)
		}
		o.Count("c01:settled")
	}
	if len(via) > 0 {
		o.Count("hop:1")
	} else {
		o.Count("hop:0")
	}
	o.Count("status:" + res.code + ":" + res.reason)

	cs := make([]string, len(counts))
	for i, c := range counts {
		cs[i] = strconv.Itoa(c)
	}
	v := "-"
	if len(via) > 0 {
		v = strings.Join(via, ",")
	}
	tail := ";at=-;u=-;e=-"
	if res.code == "ok" {
		tail = fmt.Sprintf(";at=n%d;u=%d;e=%s", stNode, stUID, Hx(stEp))
	}
	return fmt.Sprintf("res s=%s;r=%s;h=%d;c=%s;via=%s%s", res.code, res.reason, total-1, strings.Join(cs, "."), v, tail)
}

func has1(xs []int, x int) bool {
	for _, y := range xs {
		if y == x {
			return true
		}
	}
	return false
}

func optTok(t string) (string, bool) {
	if t == "~" {
		return "", false
	}
	return Unhx(t), true
}

func listTok(t string) []string {
	if t == "-" {
		return nil
	}
	var out []string
	for _, x := range strings.Split(t, ",") {
		out = append(out, Unhx(x))
	}
	return out
}

func (e *routeEngine) Step(ws []string, o *Out) string {
	switch ws[0] {
	case "cfg":
		e.cfgs[Atoi(ws[1])] = parseCfg(ws[2:])
		o.Count("cfg")
		return "ok"
	case "nodes":
		e.mkNodes(Atoi(ws[1]))
		return "ok"
	case "up", "rmup":
		k := upKey{node: Atoi(ws[1]), uid: Atoi(ws[2]), ep: Unhx(ws[3])}
		if k.node >= len(e.nodes) {
			return "bad-node"
		}
		n := e.nodes[k.node]
		if ws[0] == "up" {
			n.mgr.AddConn(e.up(k))
			e.order = append(e.order, k)
		} else {
			n.mgr.RemoveConn(e.up(k))
			for i, x := range e.order {
				if x == k {
					e.order = append(append([]upKey(nil), e.order[:i]...), e.order[i+1:]...)
					break
				}
			}
		}
		return "ok " + ShowCounts(n.mgr.Endpoints())
	case "view":
		i := Atoi(ws[1])
		if i >= len(e.nodes) {
			return "bad-node"
		}
		row := &cluster.Node{ID: Unhx(ws[2]), Status: status(ws[3]), ProxyAddr: e.realAddr(ws[4])}
		for _, kv := range ws[5:] {
			p := strings.SplitN(kv, "=", 2)
			if row.Endpoints == nil {
				row.Endpoints = map[string]int{}
			}
			row.Endpoints[Unhx(p[0])] = Atoi(p[1])
		}
		e.nodes[i].cs.AddNode(row)
		return "ok"
	case "vstat":
		return "ok " + B01(e.nodes[Atoi(ws[1])].cs.UpdateRemoteStatus(Unhx(ws[2]), status(ws[3])))
	case "vep":
		return "ok " + B01(e.nodes[Atoi(ws[1])].cs.UpdateRemoteEndpoint(Unhx(ws[2]), Unhx(ws[3]), Atoi(ws[4])))
	case "vrm":
		return "ok " + B01(e.nodes[Atoi(ws[1])].cs.RemoveRemoteEndpoint(Unhx(ws[2]), Unhx(ws[3])))
	case "vdel":
		return "ok " + B01(e.nodes[Atoi(ws[1])].cs.RemoveNode(Unhx(ws[2])))
	case "lep":
		e.nodes[Atoi(ws[1])].cs.AddLocalEndpoint(Unhx(ws[2]))
		return "ok"
	case "rmlep":
		e.nodes[Atoi(ws[1])].cs.RemoveLocalEndpoint(Unhx(ws[2]))
		return "ok"
	case "gone":
		k := upKey{node: Atoi(ws[1]), uid: Atoi(ws[2]), ep: Unhx(ws[3])}
		atomic.StoreInt32(&e.up(k).gone, 1)
		return "ok"
	case "resync":
		for _, k := range e.order {
			e.nodes[k.node].mgr.RemoveConn(e.up(k))
		}
		var keep []upKey
		for _, k := range e.order {
			if atomic.LoadInt32(&e.up(k).gone) == 0 {
				keep = append(keep, k)
			}
		}
		e.order = keep
		for _, k := range e.order {
			e.nodes[k.node].mgr.AddConn(e.up(k))
		}
		return "ok"
	case "req":
		// req <i> <kind> <host> <ephdr|~> <fwd|~> <connraw|-> <conn|-> <pathEp|-> <split|!> <ip>
		r := reqSpec{entry: Atoi(ws[1]), kind: ws[2], host: Unhx(ws[3]), connRaw: listTok(ws[6])}
		if r.entry >= len(e.nodes) {
			return "bad-node"
		}
		r.epHdr, r.hasEp = optTok(ws[4])
		r.fwdHdr, r.hasFwd = optTok(ws[5])
		if ws[8] != "-" {
			r.pathEp = Unhx(ws[8])
		}
		// the library results on the op line must be what the libraries say
		if strings.Join(connOptions(r.connRaw), ",") != strings.Join(listTok(ws[7]), ",") {
			o.Fail("ANY", "op-line-lib-drift", "Connection options "+ws[6]+" vs "+ws[7])
		}
		sp, ip := libResults(r.host)
		if sp != ws[9] || ip != ws[10] {
			o.Fail("ANY", "op-line-lib-drift", "host "+ws[3]+" split="+sp+" ip="+ip)
		}
		return e.req(r, o)
	case "epid":
		// epid <host> <hdr|~> <split|!> <ip>
		host := Unhx(ws[1])
		hr := &http.Request{Host: host, Header: http.Header{}}
		if v, ok := optTok(ws[2]); ok {
			hr.Header.Set("x-piko-endpoint", v)
		}
		sp, ip := libResults(host)
		if sp != ws[3] || ip != ws[4] {
			o.Fail("ANY", "op-line-lib-drift", "host "+ws[1]+" split="+sp+" ip="+ip)
		}
		got := proxy.EndpointIDFromRequest(hr)
		// C01 addressing rules, from the statement: header first, else first Host label
		v, _ := optTok(ws[2])
		if want := addressed(reqSpec{kind: "http", host: host, epHdr: v, hasEp: v != ""}); want != got {
			o.Fail("C01", "endpoint-id", "host="+ws[1]+" hdr="+ws[2]+" got="+Hx(got)+" want="+Hx(want))
		}
		o.Count("oracle:C01:epid")
		return "epid " + Hx(got)
	}
	return "bad-op"
}

// libResults are net.SplitHostPort(host) (host part, `!` for an error) and
// net.ParseIP(of the host after stripping) != nil, as op-line tokens.
func libResults(host string) (string, string) {
	sp := "!"
	h := host
	if hp, _, err := net.SplitHostPort(host); err == nil {
		sp = Hx(hp)
		h = hp
	}
	return sp, B01(net.ParseIP(h) != nil)
}

// ---------------------------------------------------------------------------- generator

var epAlphabet = []string{"e", "ep", "foo", "bar", "my-endpoint"}

var wildHosts = []string{
	"", "foo", "foo.", ".foo.com", "foo..com", "foo.example.com", "foo.example.com.", "foo.example.com:8000",
	"FOO.Example.COM", "1.2.3.4", "1.2.3.4:80", "256.1.1.1", "0x7f.0.0.1", "::1", "[::1]", "[::1]:8080",
	"[fe80::1%eth0]:80", "fe80::1", "foo.bar:80:90", "a.b:c", "localhost:8000", "é✓.example.com",
	" spaced.example.com", "bar.piko.internal:", ":8000", "foo.example.com:", "[foo.example.com]:80",
	"my-endpoint.piko.example.com", "e.x", "1.2.3", "1.2.3.4.5", "::ffff:1.2.3.4", "[::ffff:1.2.3.4]:1",
}

var wildHeaders = []string{"~", "~", "~", "-", "foo", "a.b", "bar", "é", "my-endpoint", " x"}

var connTable = [][]string{
	{"x-piko-forward"}, {"X-Piko-Forward"}, {"X-PIKO-FORWARD , keep-alive"}, {"keep-alive", "x-Piko-forward"},
	{"x-piko-endpoint"}, {"keep-alive, X-Piko-Endpoint"}, {"x-piko-endpoint", "x-piko-forward"},
	{"x-piko-forward,x-piko-endpoint"}, {"keep-alive"}, {"foo, bar"}, {"x-piko-forwarded"},
}

var fwdTable = []string{"true", "true", "1", "false", "True", "TRUE", "-", "yes"}

type genNode struct {
	ups map[string][]int
}

func reqLine(w *bufio.Writer, entry int, kind, host string, epHdr, fwdHdr string, connRaw []string, pathEp string) {
	cr, co := "-", "-"
	if len(connRaw) > 0 {
		var a, b []string
		for _, v := range connRaw {
			a = append(a, Hx(v))
		}
		for _, v := range connOptions(connRaw) {
			b = append(b, Hx(v))
		}
		cr = strings.Join(a, ",")
		if len(b) > 0 {
			co = strings.Join(b, ",")
		}
	}
	pe := "-"
	if kind == "tcp" {
		pe = Hx(pathEp)
	}
	sp, ip := libResults(host)
	fmt.Fprintf(w, "req %d %s %s %s %s %s %s %s %s %s\n", entry, kind, Hx(host), epHdr, fwdHdr, cr, co, pe, sp, ip)
}

func (e *routeEngine) Gen(r *rand.Rand, n int, tier string, w *bufio.Writer) {
	for c := 0; c < n; c++ {
		fmt.Fprintf(w, "case route-%d\n", c)
		N := 2 + r.Intn(3)
		genCfg(r, N, w)
		fmt.Fprintf(w, "nodes %d\n", N)
		eps := append([]string(nil), epAlphabet...)
		r.Shuffle(len(eps), func(i, j int) { eps[i], eps[j] = eps[j], eps[i] })
		eps = eps[:2+r.Intn(2)]
		gn := make([]*genNode, N)
		uid := 0
		place := 0.15 + 0.4*r.Float64()
		for i := range gn {
			gn[i] = &genNode{ups: map[string][]int{}}
			for _, ep := range eps {
				if r.Float64() < place {
					for k := 0; k < 1+r.Intn(2); k++ {
						uid++
						gn[i].ups[ep] = append(gn[i].ups[ep], uid)
						fmt.Fprintf(w, "up %d %d %s\n", i, uid, Hx(ep))
					}
				}
			}
		}
		settledCase := r.Intn(6) == 0
		if r.Intn(8) == 0 {
			// the local row of the routing table disagrees with the registry (cluster.State
			// driven directly): LookupEndpoint must still never answer with the local node
			for k := 0; k < 1+r.Intn(2); k++ {
				fmt.Fprintf(w, "lep %d %s\n", r.Intn(N), Hx(Pick(r, eps)))
			}
			if r.Intn(3) == 0 {
				fmt.Fprintf(w, "rmlep %d %s\n", r.Intn(N), Hx(Pick(r, eps)))
			}
		}
		statuses := []string{"active", "active", "active", "active", "unreachable", "left", "unset"}
		for i := 0; i < N; i++ {
			for j := 0; j < N+1; j++ {
				if j == i {
					if r.Intn(12) == 0 && !settledCase { // AddNode refuses the local id
						fmt.Fprintf(w, "view %d %s active a%d %s=2\n", i, Hx(nid(i)), i, Hx(eps[0]))
					}
					continue
				}
				if settledCase {
					if j == N {
						continue
					}
					line := fmt.Sprintf("view %d %s active a%d", i, Hx(nid(j)), j)
					for _, ep := range eps {
						if k := len(gn[j].ups[ep]); k > 0 {
							line += fmt.Sprintf(" %s=%d", Hx(ep), k)
						}
					}
					fmt.Fprintln(w, line)
					continue
				}
				id := nid(j)
				if j == N { // a row about a node that does not exist
					if r.Intn(5) != 0 {
						continue
					}
					id = "n9"
				} else if r.Intn(5) == 0 {
					continue
				}
				addr := "dead"
				switch x := r.Intn(10); {
				case x < 6 && j < N:
					addr = fmt.Sprintf("a%d", j)
				case x < 8:
					k := r.Intn(N) // somebody else's address (rarely the node's own)
					if k == i && r.Intn(3) != 0 {
						k = (k + 1) % N
					}
					addr = fmt.Sprintf("a%d", k)
				}
				line := fmt.Sprintf("view %d %s %s %s", i, Hx(id), Pick(r, statuses), addr)
				for _, ep := range eps {
					if r.Intn(5) < 3 {
						line += fmt.Sprintf(" %s=%d", Hx(ep), r.Intn(5)-1)
					}
				}
				fmt.Fprintln(w, line)
			}
		}
		nops := 8 + r.Intn(10)
		if tier == "thorough" {
			nops = 10 + r.Intn(30)
		}
		for k := 0; k < nops; k++ {
			if r.Intn(7) == 0 {
				// an upstream whose listener stopped accepting (Dial answers ErrGone) but which is
				// still registered, on a node B that a request reaches - mostly forwarded by a node A
				// whose view names B, while B's own view names a further node (or A) for the endpoint
				ep := Pick(r, eps)
				B := r.Intn(N)
				A := (B + 1 + r.Intn(N-1)) % N
				if r.Intn(4) == 0 {
					A = B
				}
				if len(gn[B].ups[ep]) == 0 {
					uid++
					gn[B].ups[ep] = append(gn[B].ups[ep], uid)
					fmt.Fprintf(w, "up %d %d %s\n", B, uid, Hx(ep))
				}
				if !settledCase {
					if A != B {
						fmt.Fprintf(w, "view %d %s active a%d %s=1\n", A, Hx(nid(B)), B, Hx(ep))
					}
					X := (B + 1 + r.Intn(N-1)) % N
					fmt.Fprintf(w, "view %d %s active a%d %s=%d\n", B, Hx(nid(X)), X, Hx(ep), 1+r.Intn(2))
				}
				fmt.Fprintln(w, "resync")
				ng := 1
				if r.Intn(2) == 0 {
					ng = len(gn[B].ups[ep])
				}
				for _, u := range gn[B].ups[ep][:ng] {
					fmt.Fprintf(w, "gone %d %d %s\n", B, u, Hx(ep))
				}
				gn[B].ups[ep] = gn[B].ups[ep][ng:]
				nreq := 1 + r.Intn(2)
				for q := 0; q < nreq; q++ {
					if r.Intn(4) == 0 {
						reqLine(w, A, "tcp", "piko.example.com", "~", "~", []string{"Upgrade"}, ep)
					} else if r.Intn(2) == 0 {
						reqLine(w, A, "http", "localhost:8000", Hx(ep), "~", nil, "")
					} else {
						reqLine(w, A, "http", ep+".piko.example.com", "~", "~", nil, "")
					}
					if A != B {
						// which candidate A picked decides whether the gone upstream was dialled and
						// removed: resync makes the registries equal again on both sides
						fmt.Fprintln(w, "resync")
					}
				}
				fmt.Fprintln(w, "resync")
				continue
			}
			if x := r.Intn(20); x < 3 && !settledCase {
				i := r.Intn(N)
				id := nid(r.Intn(N))
				switch r.Intn(5) {
				case 0:
					fmt.Fprintf(w, "vstat %d %s %s\n", i, Hx(id), Pick(r, statuses))
				case 1:
					fmt.Fprintf(w, "vep %d %s %s %d\n", i, Hx(id), Hx(Pick(r, eps)), r.Intn(4)-1)
				case 2:
					fmt.Fprintf(w, "vrm %d %s %s\n", i, Hx(id), Hx(Pick(r, eps)))
				case 3:
					// an upstream disconnects (views elsewhere go stale) or connects
					ep := Pick(r, eps)
					if us := gn[i].ups[ep]; len(us) > 0 {
						fmt.Fprintf(w, "rmup %d %d %s\n", i, us[0], Hx(ep))
						gn[i].ups[ep] = us[1:]
					} else {
						uid++
						gn[i].ups[ep] = append(gn[i].ups[ep], uid)
						fmt.Fprintf(w, "up %d %d %s\n", i, uid, Hx(ep))
					}
				case 4:
					if r.Intn(3) == 0 {
						fmt.Fprintf(w, "vdel %d %s\n", i, Hx(id))
					} else {
						fmt.Fprintf(w, "rmup %d %d %s\n", i, 90+r.Intn(3), Hx(Pick(r, eps))) // never registered
					}
				}
				continue
			}
			entry := r.Intn(N)
			ep := Pick(r, eps)
			other := Pick(r, eps)
			for other == ep {
				other = Pick(r, eps)
			}
			kind := "http"
			if r.Intn(10) < 3 {
				kind = "tcp"
			}
			host, hdr := "piko.example.com:8000", "~"
			target := ep // the endpoint the generator means to address (bookkeeping for resync only)
			switch x := r.Intn(20); {
			case x < 5:
				hdr = Hx(ep)
				host = Pick(r, []string{"localhost:8000", "127.0.0.1:8000", "piko", "[::1]:8000"})
			case x < 10:
				host = ep + Pick(r, []string{".piko.example.com", ".piko.example.com:8000", ".x", ".piko.example.com."})
			case x < 14: // both, conflicting: the header wins
				hdr = Hx(ep)
				host = other + ".piko.example.com"
			case x < 16: // empty header value: Host decides
				hdr = "-"
				host = ep + ".piko.example.com"
			case x < 17:
				host = strings.ToUpper(ep) + ".piko.example.com"
				target = strings.ToUpper(ep)
			default: // nothing names an endpoint
				host = Pick(r, []string{"localhost", "localhost:8000", "127.0.0.1", "10.1.2.3:80", "[::1]:8000", "piko", "-"})
				if host == "-" {
					host = ""
				}
				target = ""
			}
			fwd := "~"
			if r.Intn(5) == 0 {
				fwd = Pick(r, fwdTable)
				if fwd != "-" {
					fwd = Hx(fwd)
				}
			}
			var conn []string
			if r.Intn(4) == 0 {
				conn = append([]string(nil), Pick(r, connTable)...)
			}
			pathEp := ""
			if kind == "tcp" {
				pathEp = ep
				target = ep
				up := Pick(r, []string{"Upgrade", "upgrade", "Upgrade, X-Piko-Forward", "x-piko-endpoint,Upgrade", "keep-alive, Upgrade"})
				if r.Intn(4) != 0 {
					up = "Upgrade"
				}
				conn = append([]string{up}, conn...)
				if r.Intn(3) == 0 { // Host/header name another endpoint: the path decides
					host = other + ".piko.example.com"
				}
			}
			reqLine(w, entry, kind, host, hdr, fwd, conn, pathEp)
			if len(gn[entry].ups[target]) == 0 || r.Intn(2) == 0 {
				fmt.Fprintln(w, "resync")
			}
		}
		for k := 0; k < 6; k++ {
			h := Pick(r, wildHosts)
			if r.Intn(4) == 0 {
				h = Pick(r, eps) + Pick(r, []string{".a.b", ".a.b:1", "", ":1", "."})
			}
			sp, ip := libResults(h)
			fmt.Fprintf(w, "epid %s %s %s %s\n", Hx(h), hdrTok(Pick(r, wildHeaders)), sp, ip)
		}
	}
}

var cfgHeaders = []string{"user-agent", "X-Piko-Forward", "x-piko-forward", "x-piko-endpoint", "X-PIKO-ENDPOINT",
	"connection", "Host", "authorization", "Authorization", "x-forwarded-for", "x-custom-hdr", "Content-Type", "upgrade"}

func hdrList(r *rand.Rand) string {
	n := 1 + r.Intn(4)
	var xs []string
	for i := 0; i < n; i++ {
		xs = append(xs, Hx(Pick(r, cfgHeaders)))
	}
	return strings.Join(xs, ",")
}

// genCfg writes a legal, randomised configuration for every node of the case (half of the
// nodes keep the defaults).  Nothing in it may influence routing.
func genCfg(r *rand.Rand, N int, w *bufio.Writer) {
	authOn := r.Intn(5) == 0
	for i := 0; i < N; i++ {
		if r.Intn(2) == 0 && !authOn {
			continue
		}
		line := fmt.Sprintf("cfg %d", i)
		if r.Intn(4) == 0 {
			line += " al=0"
		} else {
			line += " al=1 lvl=" + Pick(r, []string{"debug", "info", "warn", "error"})
		}
		switch r.Intn(3) { // allow list XOR block list (Validate)
		case 0:
			line += " qa=" + hdrList(r)
		case 1:
			line += " qb=" + hdrList(r)
		}
		switch r.Intn(3) {
		case 0:
			line += " pa=" + hdrList(r)
		case 1:
			line += " pb=" + hdrList(r)
		}
		if r.Intn(2) == 0 {
			line += fmt.Sprintf(" to=%d rt=%d rht=%d wt=%d it=%d mhb=%d", 4000+r.Intn(5000), 5000+r.Intn(10000),
				5000+r.Intn(10000), 5000+r.Intn(10000), 1000+r.Intn(60000), 1<<uint(13+r.Intn(8)))
		}
		if authOn {
			line += " auth=1"
		}
		fmt.Fprintln(w, line)
	}
}

func hdrTok(s string) string {
	if s == "~" || s == "-" {
		return s
	}
	return Hx(s)
}
