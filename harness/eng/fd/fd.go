// Package fd is the correspondence engine for the accrual failure detector (C12).
//
// It drives the real accrualFailureDetector of pkg/gossip through ReportWithTimestamp /
// SuspicionLevelAt / Remove with synthetic timestamps, prints the integer state of the
// node's arrival window after every op (compared exactly with the Lean model) and the
// threshold decision taken on the real float, and evaluates the clauses of C12 directly on
// the implementation against a reference computed from the arrival history alone.
package fd

import (
	"bufio"
	"fmt"
	"math"
	"math/big"
	"math/rand"
	"sort"
	"strconv"
	"strings"
	"time"

	. "verifharness/core"

	pgossip "github.com/andydunstall/piko/pkg/gossip"
)

type fdEngine struct {
	d    *pgossip.VAccrualFD
	b    int64
	n    int
	hist map[string][]int64 // arrivals of each node since its window was created
	// oracle failures are reported once per case and for at most maxFailCases cases per
	// process: one broken ring produces a failure on nearly every later op, and a flood of
	// identical lines only slows the decision down (the shrinker re-runs single cases).
	caseFailed bool
	failCases  int
}

const maxFailCases = 20

func (e *fdEngine) fail(o *Out, clause, detail string) {
	if e.caseFailed {
		o.Count("oracle:C12:fail-suppressed")
		return
	}
	e.caseFailed = true
	e.failCases++
	if e.failCases > maxFailCases {
		o.Count("oracle:C12:fail-suppressed")
		return
	}
	o.Fail("C12", clause, detail)
	// C11 ("a node that stops responding is marked unreachable … restored if heard from again") rests on
	// the verdict the liveness tick takes from this detector: whatever makes the suspicion level differ
	// from the window's exact value, or panic, breaks C11's composition theorems too
	o.Fail("C11", "detector-"+clause, detail)
}

// New returns the engine.
func New() Engine { return &fdEngine{} }

func (e *fdEngine) Reset() {
	e.caseFailed = false
	e.newDetector(1000000000, 50)
}

func (e *fdEngine) newDetector(b int64, n int) {
	e.b, e.n = b, n
	e.d = pgossip.VNewAccrualFD(time.Duration(b), n)
	e.hist = map[string][]int64{}
}

func ts(ns int64) time.Time { return time.Unix(0, ns) }

// ---------------------------------------------------------------- reference (property statement)

// refWindow: the samples of an arrival history are [b, t2-t1, t3-t2, ...]; the window is the
// last min(len, N) of them.
func refWindow(b int64, n int, hist []int64) (win []int64, sum int64) {
	if len(hist) == 0 {
		return nil, 0
	}
	samples := make([]int64, 0, len(hist))
	samples = append(samples, b)
	for i := 1; i < len(hist); i++ {
		samples = append(samples, hist[i]-hist[i-1])
	}
	if len(samples) > n {
		samples = samples[len(samples)-n:]
	}
	for _, x := range samples {
		sum += x
	}
	return samples, sum
}

// exact phi = (t-last)*size / sum as a rational.
func exactPhi(t, last int64, size int, sum int64) *big.Rat {
	num := new(big.Int).Mul(big.NewInt(t-last), big.NewInt(int64(size)))
	return new(big.Rat).SetFrac(num, big.NewInt(sum))
}

var (
	ratOne   = big.NewRat(1, 1)
	ratTol   = big.NewRat(1, 1000000000)
	ratBand  = big.NewRat(1, 1000000)
	theta    = int64(pgossip.VSuspicionThreshold)
	thetaRat = big.NewRat(theta, 1)
)

func ratAbs(x *big.Rat) *big.Rat { return new(big.Rat).Abs(x) }

// closeTo: |f - exact| <= 1e-9 * max(1, |exact|)
func closeTo(f float64, exact *big.Rat) bool {
	if math.IsNaN(f) || math.IsInf(f, 0) {
		return false
	}
	fr := new(big.Rat).SetFloat64(f)
	diff := ratAbs(new(big.Rat).Sub(fr, exact))
	scale := ratAbs(exact)
	if scale.Cmp(ratOne) < 0 {
		scale = ratOne
	}
	return diff.Cmp(new(big.Rat).Mul(ratTol, scale)) <= 0
}

// ---------------------------------------------------------------- calls with recover

type res struct {
	phi      float64
	panicked bool
	msg      string
}

func (e *fdEngine) query(d *pgossip.VAccrualFD, id string, t int64) (r res) {
	defer func() {
		if x := recover(); x != nil {
			r.panicked = true
			r.msg = fmt.Sprint(x)
		}
	}()
	r.phi = d.SuspicionLevelAt(id, ts(t))
	return
}

func (e *fdEngine) report(d *pgossip.VAccrualFD, id string, t int64) (r res) {
	defer func() {
		if x := recover(); x != nil {
			r.panicked = true
			r.msg = fmt.Sprint(x)
		}
	}()
	d.ReportWithTimestamp(id, ts(t))
	return
}

func panicKind(msg string) string {
	switch {
	case strings.Contains(msg, "index out of range"):
		return "panic index"
	case !strings.HasPrefix(msg, "runtime error"):
		// the detector's own guard in Phi (a non-positive mean); its wording is not compared
		return "panic phi"
	}
	return "panic other:" + Hx(msg)
}

// ---------------------------------------------------------------- printing

func (e *fdEngine) show(id string) string {
	ok, iv, idx, full, sum, size, last := pgossip.VFDWindow(e.d, id)
	var s string
	if !ok {
		s = "absent"
	} else {
		xs := make([]string, len(iv))
		for i, x := range iv {
			xs[i] = strconv.FormatInt(x, 10)
		}
		l := "-"
		if last.After(time.Time{}) {
			l = strconv.FormatInt(last.UnixNano(), 10)
		}
		s = "w=[" + strings.Join(xs, ",") + "] idx=" + strconv.Itoa(idx) + " full=" + B01(full) +
			" sum=" + strconv.FormatInt(sum, 10) + " size=" + strconv.Itoa(size) + " last=" + l
	}
	ids := pgossip.VFDNodes(e.d)
	hs := make([]string, len(ids))
	for i, x := range ids {
		hs[i] = Hx(x)
	}
	sort.Strings(hs)
	return s + " nodes=[" + strings.Join(hs, ",") + "]"
}

// ---------------------------------------------------------------- oracle

// checkState: the integer state of the implementation against the reference window.
func (e *fdEngine) checkState(o *Out, id string) {
	hist := e.hist[id]
	ok, iv, idx, full, sum, size, last := pgossip.VFDWindow(e.d, id)
	if !ok {
		if len(hist) != 0 {
			e.fail(o, "window-missing", Hx(id))
		}
		return
	}
	if e.n <= 0 {
		return
	}
	win, rsum := refWindow(e.b, e.n, hist)
	if len(hist) == 0 {
		e.fail(o, "window-unexpected", Hx(id))
		return
	}
	if sum != rsum {
		e.fail(o, "window-sum", fmt.Sprintf("%s sum=%d reference=%d arrivals=%d N=%d", Hx(id), sum, rsum, len(hist), e.n))
	}
	if size != len(win) {
		e.fail(o, "window-size", fmt.Sprintf("%s size=%d reference=%d arrivals=%d N=%d", Hx(id), size, len(win), len(hist), e.n))
	}
	if idx < 1 || idx > len(iv) || len(iv) != e.n {
		e.fail(o, "ring-index", fmt.Sprintf("%s idx=%d len=%d N=%d", Hx(id), idx, len(iv), e.n))
	}
	if full != (len(hist) > e.n) {
		e.fail(o, "ring-full-flag", fmt.Sprintf("%s full=%v arrivals=%d N=%d", Hx(id), full, len(hist), e.n))
	}
	// the ring holds exactly the reference window (as a multiset; slot order is the model's business)
	if len(hist) >= e.n {
		a := append([]int64(nil), iv...)
		b := append([]int64(nil), win...)
		sort.Slice(a, func(i, j int) bool { return a[i] < a[j] })
		sort.Slice(b, func(i, j int) bool { return b[i] < b[j] })
		if fmt.Sprint(a) != fmt.Sprint(b) {
			e.fail(o, "ring-contents", fmt.Sprintf("%s ring=%v reference=%v", Hx(id), iv, win))
		}
	}
	if last.UnixNano() != hist[len(hist)-1] {
		e.fail(o, "last-timestamp", fmt.Sprintf("%s last=%d reference=%d", Hx(id), last.UnixNano(), hist[len(hist)-1]))
	}
	o.Count("oracle:C12:state")
}

// checkPhi evaluates the clauses of C12 for a query (id, t) whose result was r; hist is the
// node's arrival history (the query itself when the node was unknown).
func (e *fdEngine) checkPhi(o *Out, id string, t int64, r res) {
	hist := e.hist[id]
	if e.n <= 0 || len(hist) == 0 {
		return
	}
	win, sum := refWindow(e.b, e.n, hist)
	last := hist[len(hist)-1]
	if sum <= 0 {
		if !r.panicked {
			e.fail(o, "phi-nonpositive-mean", fmt.Sprintf("%s sum=%d phi=%g", Hx(id), sum, r.phi))
		}
		return
	}
	if r.panicked {
		e.fail(o, "phi-panic", fmt.Sprintf("%s t=%d %s", Hx(id), t, Hx(r.msg)))
		return
	}
	exact := exactPhi(t, last, len(win), sum)
	// (1) the float is the exact fraction (t-last)/mean(window)
	if !closeTo(r.phi, exact) {
		e.fail(o, "phi-exact", fmt.Sprintf("%s t=%d phi=%.12g reference=%s arrivals=%d N=%d", Hx(id), t, r.phi, exact.FloatString(9), len(hist), e.n))
	}
	// (2) zero at the moment of arrival
	if t == last && r.phi != 0 {
		e.fail(o, "zero-at-arrival", fmt.Sprintf("%s phi=%g", Hx(id), r.phi))
	}
	// (3) window only: a detector fed only the last N+1 arrivals gives the same level
	tail := hist
	if len(tail) > e.n+1 {
		tail = tail[len(tail)-(e.n+1):]
		o.Count("oracle:C12:window-only-evicted")
	}
	sh := pgossip.VNewAccrualFD(time.Duration(e.b), e.n)
	for _, a := range tail {
		e.report(sh, id, a)
	}
	if sr := e.query(sh, id, t); sr.panicked || sr.phi != r.phi {
		e.fail(o, "window-only", fmt.Sprintf("%s t=%d phi=%.17g lastN+1=%.17g panic=%v arrivals=%d N=%d", Hx(id), t, r.phi, sr.phi, sr.panicked, len(hist), e.n))
	}
	// (4) monotone in t (queries of a known node do not change state)
	if t >= last {
		step := (sum/int64(len(win)))/7 + 1
		for _, dt := range []int64{1, step, 50 * step} {
			r2 := e.query(e.d, id, t+dt)
			if r2.panicked || r2.phi < r.phi || (dt > 1 && !(r2.phi > r.phi)) {
				e.fail(o, "monotone", fmt.Sprintf("%s phi(%d)=%.17g phi(%d)=%.17g", Hx(id), t, r.phi, t+dt, r2.phi))
			}
		}
	}
	// (5) accuracy: window samples in [lo,hi], hi <= theta*lo, t <= last+hi  =>  phi <= theta
	lo, hi := win[0], win[0]
	for _, x := range win {
		if x < lo {
			lo = x
		}
		if x > hi {
			hi = x
		}
	}
	if lo > 0 && hi <= theta*lo && t <= last+hi {
		o.Count("oracle:C12:accuracy")
		if r.phi > float64(theta)*(1+1e-9) {
			e.fail(o, "accuracy", fmt.Sprintf("%s phi=%g lo=%d hi=%d", Hx(id), r.phi, lo, hi))
		}
	}
	// (6) completeness: after a silence of theta*mean (+1e-6 relative) the level exceeds theta
	T := theta*sum/int64(len(win)) + 1
	T += T/1000000 + 1
	if rc := e.query(e.d, id, last+T); rc.panicked || !(rc.phi > float64(theta)) {
		e.fail(o, "completeness", fmt.Sprintf("%s silence=%d phi=%g", Hx(id), T, rc.phi))
	}
	o.Count("oracle:C12:phi")
}

// decision: the printed threshold decision comes from the real float; it is masked by "~"
// when the exact level (computed from the implementation's own integer state) is within
// 1e-6 of the threshold.
func (e *fdEngine) decision(id string, t int64, phi float64) string {
	ok, _, _, _, sum, size, last := pgossip.VFDWindow(e.d, id)
	if !ok || sum <= 0 {
		return "?"
	}
	exact := exactPhi(t, last.UnixNano(), size, sum)
	if ratAbs(new(big.Rat).Sub(exact, thetaRat)).Cmp(ratBand) < 0 {
		return "~"
	}
	return B01(phi > float64(theta))
}

// ---------------------------------------------------------------- ops

func (e *fdEngine) Step(ws []string, o *Out) string {
	switch ws[0] {
	case "new":
		if len(ws) != 3 {
			return "bad-op"
		}
		b, err1 := strconv.ParseInt(ws[1], 10, 64)
		n, err2 := strconv.ParseUint(ws[2], 10, 31)
		if err1 != nil || err2 != nil {
			return "bad-op"
		}
		e.newDetector(b, int(n))
		return "ok"
	case "report":
		if len(ws) != 3 {
			return "bad-op"
		}
		id := Unhx(ws[1])
		t, err := strconv.ParseInt(ws[2], 10, 64)
		if err != nil || t < 0 {
			return "bad-op"
		}
		r := e.report(e.d, id, t)
		if r.panicked {
			kind := panicKind(r.msg)
			if e.n > 0 || kind != "panic index" {
				e.fail(o, "report-panic", Hx(id)+" "+Hx(r.msg))
			}
			o.Count("panic:report")
			return kind + " " + e.show(id)
		}
		e.hist[id] = append(e.hist[id], t)
		e.checkState(o, id)
		// zero at the moment of arrival, on the real detector
		if _, sum := refWindow(e.b, e.n, e.hist[id]); sum > 0 {
			if z := e.query(e.d, id, t); z.panicked || z.phi != 0 {
				e.fail(o, "zero-at-arrival", fmt.Sprintf("%s t=%d phi=%g panic=%v", Hx(id), t, z.phi, z.panicked))
			}
		}
		return "ok " + e.show(id)
	case "query":
		if len(ws) != 3 {
			return "bad-op"
		}
		id := Unhx(ws[1])
		t, err := strconv.ParseInt(ws[2], 10, 64)
		if err != nil || t < 0 {
			return "bad-op"
		}
		known, _, _, _, _, _, _ := pgossip.VFDWindow(e.d, id)
		r := e.query(e.d, id, t)
		now, _, _, _, _, _, _ := pgossip.VFDWindow(e.d, id)
		if !known && now {
			// first query of an unknown node: a bootstrap window whose last arrival is the query
			e.hist[id] = []int64{t}
			o.Count("query:unknown")
		}
		if !known && !now && !r.panicked && e.n > 0 && e.b > 0 {
			// a node never heard from must still become suspected eventually: the level after a
			// silence of theta bootstrap intervals (+1e-6 relative) counted from this first query
			T := theta*e.b + 1
			T += T/1000000 + 1
			if rc := e.query(e.d, id, t+T); rc.panicked || !(rc.phi > float64(theta)) {
				e.fail(o, "completeness-never-heard", fmt.Sprintf("%s first-query=%d silence=%d phi=%g", Hx(id), t, T, rc.phi))
			}
		}
		e.checkState(o, id)
		e.checkPhi(o, id, t, r)
		if r.panicked {
			o.Count("panic:query")
			kind := panicKind(r.msg)
			if strings.HasPrefix(kind, "panic other") || (kind == "panic index" && e.n > 0) {
				e.fail(o, "query-panic", Hx(id)+" "+Hx(r.msg))
			}
			return kind + " " + e.show(id)
		}
		dec := e.decision(id, t, r.phi)
		o.Count("gt:" + dec)
		return "phi zero=" + B01(r.phi == 0) + " gt=" + dec + " " + e.show(id)
	case "remove":
		if len(ws) != 2 {
			return "bad-op"
		}
		id := Unhx(ws[1])
		e.d.Remove(id)
		delete(e.hist, id)
		e.checkState(o, id)
		return "ok " + e.show(id)
	}
	return "bad-op"
}

// ---------------------------------------------------------------- generator

func logUniform(r *rand.Rand, lo, hi float64) int64 {
	x := math.Exp(math.Log(lo) + r.Float64()*(math.Log(hi)-math.Log(lo)))
	v := int64(x)
	if v < 1 {
		v = 1
	}
	return v
}

var idAlphabet = []string{"n1", "n2", "node-3", "é✓", "a b"}

// Gen: one detector per case; window sizes 1-60 (a sample size below 1 is outside the property and outside
// what production passes - observation O7 - and is not exercised),
// up to ~5N arrivals for the main node so the ring wraps several times; inter-arrival times
// log-uniform 1µs-10s, steady with jitter, or bursts down to 1ns; queries at / just after /
// long after the last arrival and around the threshold silence 20*mean (both sides of it and,
// when it is an integer, exactly on it); Remove followed by fresh reports; first queries of
// unknown nodes.
func (e *fdEngine) Gen(r *rand.Rand, n int, tier string, w *bufio.Writer) {
	for c := 0; c < n; c++ {
		fmt.Fprintf(w, "case fd-%d\n", c)
		var N int
		switch x := r.Intn(100); {
		case x < 30:
			N = 1 + r.Intn(4)
		case x < 70:
			N = 5 + r.Intn(16)
		default:
			N = 21 + r.Intn(40)
		}
		base := logUniform(r, 1e3, 1e10)
		var b int64
		switch x := r.Intn(100); {
		case x < 50:
			b = 2 * base
		case x < 97:
			b = logUniform(r, 1e3, 1e10)
		case x < 99:
			b = 0
		default:
			b = -logUniform(r, 1, 1e6)
		}
		mode := r.Intn(3) // 0 steady, 1 random, 2 bursty
		if c%7 != 0 || r.Intn(3) == 0 {
			fmt.Fprintf(w, "new %d %d\n", b, N)
		} else {
			// production shape of Reset: bootstrap 1s, 50 samples
			b, N = 1000000000, 50
		}
		ids := append([]string(nil), idAlphabet...)
		r.Shuffle(len(ids), func(i, j int) { ids[i], ids[j] = ids[j], ids[i] })
		ids = ids[:1+r.Intn(4)]
		hist := map[string][]int64{}
		clock := 1 + r.Int63n(1000000000)
		burst := 0
		maxArr := 5*N + 3
		if tier != "thorough" && maxArr > 160 {
			maxArr = 100 + r.Intn(61)
		}
		narr := 1 + r.Intn(maxArr)
		interval := func() int64 {
			if burst > 0 {
				burst--
				return logUniform(r, 1, 1e3)
			}
			switch mode {
			case 0:
				// within [base/2, 2*base]: a steady peer (hi <= 4 lo)
				return base/2 + r.Int63n(base+base/2+1)
			case 2:
				if r.Intn(8) == 0 {
					burst = 1 + r.Intn(N+3)
				}
				return logUniform(r, 1e3, 1e10)
			}
			return logUniform(r, 1e3, 1e10)
		}
		pickID := func() string {
			if r.Intn(4) != 0 {
				return ids[0]
			}
			return Pick(r, ids)
		}
		emitQuery := func(id string) {
			h := hist[id]
			if len(h) == 0 {
				// unknown node: the query becomes its first arrival
				t := clock
				if r.Intn(2) == 0 {
					clock += interval()
					t = clock
				}
				fmt.Fprintf(w, "query %s %d\n", Hx(id), t)
				if N > 0 {
					hist[id] = []int64{t}
				}
				return
			}
			last := h[len(h)-1]
			win, sum := refWindow(b, N, h)
			var t int64
			switch x := r.Intn(12); {
			case x == 0:
				t = last
			case x == 1:
				t = last + 1
			case x == 2:
				t = clock
			case x == 3:
				t = clock + interval()
			case x < 9 && sum > 0:
				// around the threshold silence theta*mean
				T := 20 * sum / int64(len(win))
				switch r.Intn(6) {
				case 0:
					t = last + T
				case 1:
					t = last + T + 1
				case 2:
					t = last + T - 1
				case 3:
					t = last + T - T/1000 - 1
				case 4:
					t = last + T + T/1000 + 1
				default:
					t = last + T/2 + r.Int63n(T+1)
				}
			default:
				k := []int64{1, 2, 5, 19, 21, 100}[r.Intn(6)]
				m := int64(1)
				if sum > 0 {
					m = sum/int64(len(win)) + 1
				}
				t = last + k*m
			}
			if t < last {
				t = last
			}
			fmt.Fprintf(w, "query %s %d\n", Hx(id), t)
		}
		arr := 0
		for arr < narr {
			id := pickID()
			switch x := r.Intn(100); {
			case x < 62:
				h := hist[id]
				if len(h) > 0 && r.Intn(150) == 0 {
					// duplicate timestamp: a zero sample
					fmt.Fprintf(w, "report %s %d\n", Hx(id), h[len(h)-1])
					if N > 0 {
						hist[id] = append(h, h[len(h)-1])
					}
				} else {
					clock += interval()
					fmt.Fprintf(w, "report %s %d\n", Hx(id), clock)
					if N > 0 {
						hist[id] = append(h, clock)
					}
				}
				arr++
				if r.Intn(6) == 0 {
					emitQuery(id)
				}
			case x < 95:
				emitQuery(id)
			case x < 98:
				fmt.Fprintf(w, "remove %s\n", Hx(id))
				delete(hist, id)
				if r.Intn(2) == 0 {
					clock += interval()
					fmt.Fprintf(w, "report %s %d\n", Hx(id), clock)
					if N > 0 {
						hist[id] = []int64{clock}
					}
					arr++
				}
			default:
				// a node outside the case's set, never reported
				u := "ghost" + strconv.Itoa(r.Intn(2))
				t := clock
				if h := hist[u]; len(h) > 0 {
					t = h[0] + r.Int63n(1+clock-h[0]+interval())
				}
				fmt.Fprintf(w, "query %s %d\n", Hx(u), t)
				if N > 0 && len(hist[u]) == 0 {
					hist[u] = []int64{t}
				}
			}
		}
		// the peer falls silent
		for _, id := range ids {
			if len(hist[id]) > 0 {
				emitQuery(id)
				if r.Intn(2) == 0 {
					emitQuery(id)
				}
			}
		}
	}
}
