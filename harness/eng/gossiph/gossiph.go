// Package gossiph is the HANDLER-level correspondence engine for pkg/gossip (C02 C03 C11):
// every node is a real clusterState behind the REAL packetListener (on an in-memory
// net.PacketConn that captures every WriteTo), the REAL streamListener.handleConn (served
// on a loopback TCP listener) and a schedule-free *Gossip whose real gossip/join/leave/Leave
// client halves are called one at a time.  The glue of listener.go / gossip.go is therefore
// executed, not re-implemented; the Lean side is the same `Net.step` as engine `gossip`.
//
// Addresses: the op lines carry canonical 15-byte addresses ("127.0.0.1:1000<i>"); each node
// really listens on 127.0.0.1:<ephemeral 5-digit port> (also 15 bytes, so every packet has
// the same size as in the model) and real addresses are mapped back before printing.
//
// Digest datagrams: the real code shuffles a Go-map-ordered digest, so the entry order of a
// sent digest is random at replay time.  The datagram is checked (header, entries are a
// duplicate-free subset of state.Digest(), size, byte-exact against encodeDigest) and, when
// the whole digest was sent, pooled in canonical (id-sorted, really re-encoded) form — one of
// the packets the sender could have produced; a truncated digest is printed `digest ~`, not
// pooled (loss) and covered by the Go-side oracle only.
package gossiph

import (
	"bufio"
	"bytes"
	"fmt"
	"math/rand"
	"net"
	"os"
	"sort"
	"strconv"
	"strings"
	"sync"
	"sync/atomic"
	"time"

	. "verifharness/core"

	pg "github.com/andydunstall/piko/pkg/gossip"
)

// ---------------------------------------------------------------- real-code plumbing

var watchdog = func() time.Duration {
	if s := os.Getenv("VERIF_WATCHDOG_S"); s != "" {
		if n, err := strconv.Atoi(s); err == nil && n > 0 {
			return time.Duration(n) * time.Second
		}
	}
	return 5 * time.Second
}()

type recWatcher struct {
	mu sync.Mutex
	ev []string
}

func (w *recWatcher) add(s string) {
	w.mu.Lock()
	w.ev = append(w.ev, s)
	w.mu.Unlock()
}
func (w *recWatcher) take() []string {
	w.mu.Lock()
	defer w.mu.Unlock()
	ev := w.ev
	w.ev = nil
	return ev
}
func (w *recWatcher) OnJoin(id string)        { w.add("join:" + Hx(id)) }
func (w *recWatcher) OnLeave(id string)       { w.add("leave:" + Hx(id)) }
func (w *recWatcher) OnReachable(id string)   { w.add("reach:" + Hx(id)) }
func (w *recWatcher) OnUnreachable(id string) { w.add("unreach:" + Hx(id)) }
func (w *recWatcher) OnUpsertKey(id, k, v string) {
	w.add("up:" + Hx(id) + ":" + Hx(k) + "=" + Hx(v))
}
func (w *recWatcher) OnDeleteKey(id, k string) { w.add("del:" + Hx(id) + ":" + Hx(k)) }
func (w *recWatcher) OnExpired(id string)      { w.add("exp:" + Hx(id)) }

// scriptFD: scripted suspicion, recorded reports.
type scriptFD struct {
	mu        sync.Mutex
	suspected map[string]bool
	reports   []string
}

func (f *scriptFD) Report(id string) {
	f.mu.Lock()
	f.reports = append(f.reports, id)
	f.mu.Unlock()
}
func (f *scriptFD) SuspicionLevel(id string) float64 {
	f.mu.Lock()
	defer f.mu.Unlock()
	if f.suspected[id] {
		return 1000
	}
	return 0
}
func (f *scriptFD) Remove(string) {}
func (f *scriptFD) takeReports() []string {
	f.mu.Lock()
	defer f.mu.Unlock()
	r := f.reports
	f.reports = nil
	return r
}
func (f *scriptFD) isSuspected(id string) bool {
	f.mu.Lock()
	defer f.mu.Unlock()
	return f.suspected[id]
}

type datagram struct {
	b  []byte
	to string
}

// memPacketConn captures every datagram instead of sending it.
type memPacketConn struct {
	mu   sync.Mutex
	sent []datagram
}

type memAddr string

func (a memAddr) Network() string { return "mem" }
func (a memAddr) String() string  { return string(a) }

func (c *memPacketConn) ReadFrom(p []byte) (int, net.Addr, error) { return 0, nil, net.ErrClosed }
func (c *memPacketConn) WriteTo(p []byte, addr net.Addr) (int, error) {
	c.mu.Lock()
	c.sent = append(c.sent, datagram{b: append([]byte(nil), p...), to: addr.String()})
	c.mu.Unlock()
	return len(p), nil
}
func (c *memPacketConn) Close() error                       { return nil }
func (c *memPacketConn) LocalAddr() net.Addr                { return memAddr("mem-packet") }
func (c *memPacketConn) SetDeadline(t time.Time) error      { return nil }
func (c *memPacketConn) SetReadDeadline(t time.Time) error  { return nil }
func (c *memPacketConn) SetWriteDeadline(t time.Time) error { return nil }
func (c *memPacketConn) take() []datagram {
	c.mu.Lock()
	defer c.mu.Unlock()
	s := c.sent
	c.sent = nil
	return s
}

// dropWriteConn pretends every write succeeded (the reply half of a stream is lost).
type dropWriteConn struct{ net.Conn }

func (c *dropWriteConn) Write(p []byte) (int, error) { return len(p), nil }

type foldNode struct {
	kv          map[string]string
	left, unrch bool
}

type hnode struct {
	id    string
	addr  string // canonical address (op lines, output)
	raddr string // real loopback address (what the real code sees)
	st    *pg.VState
	w     *recWatcher
	fd    *scriptFD
	pc    *memPacketConn
	ln    net.Listener
	sl    *pg.VStreamListener
	cfg   *pg.Config
	g     *pg.Gossip

	accepted, handled atomic.Int64
	loseReply         atomic.Bool
	errMu             sync.Mutex
	lastErr           error

	// oracle state
	ref     map[string]string    // C17: live own keys
	hist    map[pg.Entry]bool    // C02: every entry this owner ever held
	fold    map[string]*foldNode // C14: fold of watcher events
	expired map[string]bool      // C11: nodes this observer has expired
	lastVer map[string]uint64    // C02: last reported version per remembered node
	wasLeft map[string]bool      // C11: left flag seen per remembered node
	dead    bool                 // left or crashed
}

func (n *hnode) serve() {
	for {
		c, err := n.ln.Accept()
		if err != nil {
			return
		}
		n.accepted.Add(1)
		var conn net.Conn = c
		if n.loseReply.Load() {
			conn = &dropWriteConn{Conn: c}
		}
		err = func() (err error) {
			defer func() {
				if r := recover(); r != nil {
					err = fmt.Errorf("PANIC %v", r)
				}
			}()
			return pg.VHandleConn(n.sl, conn)
		}()
		n.errMu.Lock()
		n.lastErr = err
		n.errMu.Unlock()
		n.handled.Add(1)
	}
}

func (n *hnode) handlerErr() error {
	n.errMu.Lock()
	defer n.errMu.Unlock()
	return n.lastErr
}

// waitHandled waits until every accepted connection of n has been handled and at least
// `atLeast` connections were handled in total.  The watchdog is counted in scheduling rounds of
// this process (1 ms sleeps), not only in wall time: a box that starves the whole process for
// seconds must not look like a hanging handler.
func (n *hnode) waitHandled(atLeast int64) bool {
	rounds := int(watchdog / time.Millisecond)
	for i := 0; ; i++ {
		h := n.handled.Load()
		if h >= atLeast && h == n.accepted.Load() {
			return true
		}
		if i >= 200+rounds {
			return false
		}
		if i < 200 {
			time.Sleep(20 * time.Microsecond)
		} else {
			time.Sleep(time.Millisecond)
		}
	}
}

// guarded runs a real handler call under the watchdog (counted in 100 ms rounds, see
// waitHandled); panics are re-raised in the caller.
func guarded(f func()) bool {
	done := make(chan any, 1)
	go func() {
		defer func() { done <- recover() }()
		f()
	}()
	finish := func(p any) bool {
		if p != nil {
			panic(p)
		}
		return true
	}
	rounds := int(watchdog / (100 * time.Millisecond))
	for i := 0; i < rounds; i++ {
		select {
		case p := <-done:
			return finish(p)
		case <-time.After(100 * time.Millisecond):
		}
	}
	select {
	case p := <-done:
		return finish(p)
	default:
		return false
	}
}

type packet struct {
	digest bool
	dst    string // real address
	b      []byte
}

type engine struct {
	nodes     map[string]*hnode
	order     []string
	pool      []packet
	canon     map[string]string // real address -> canonical address
	anyExp    bool              // some observer expired some node in this case (C02's quantifier has no expiry)
	diverged  bool              // the op lines no longer fit this run (items-mismatch / missing packet): settle oracle off
	lastItems int               // items carried by the last hdeliver reply (for the generator)
}

// New returns the engine.
func New() Engine { return &engine{} }

func (e *engine) closeAll() {
	for _, n := range e.nodes {
		if n.ln != nil {
			_ = n.ln.Close()
		}
	}
}

func (e *engine) Reset() {
	e.closeAll()
	e.nodes = map[string]*hnode{}
	e.order = nil
	e.pool = nil
	e.canon = map[string]string{}
	e.anyExp = false
	e.diverged = false
}

const huge = 1 << 30
const addrLen = 15 // len("127.0.0.1:10000")

// ca maps a real address to the canonical one of the op lines.
func (e *engine) ca(a string) string {
	if c, ok := e.canon[a]; ok {
		return c
	}
	return a
}

// ---------------------------------------------------------------- printing (conventions of eng/gossip)

func showEntry(en pg.Entry) string {
	s := Hx(en.Key) + "=" + Hx(en.Value) + "@" + strconv.FormatUint(en.Version, 10)
	if en.Deleted {
		s += "D"
	}
	if en.Internal {
		s += "I"
	}
	return s
}

func showEntries(es []pg.Entry) string {
	xs := make([]string, len(es))
	for i, en := range es {
		xs[i] = showEntry(en)
	}
	return strings.Join(xs, ",")
}

func (e *engine) showNode(n *pg.NodeState) string {
	return Hx(n.ID) + "@" + Hx(e.ca(n.Addr)) + ":v" + strconv.FormatUint(n.Version, 10) + ":L" + B01(n.Left) +
		":U" + B01(n.Unreachable) + ":X" + B01(!n.Expiry.IsZero()) + "{" + showEntries(n.Entries) + "}"
}

func (e *engine) showState(g *hnode) string {
	var xs []string
	for _, m := range g.st.Nodes() {
		n, _ := g.st.Node(m.ID)
		xs = append(xs, e.showNode(n))
	}
	return "[" + SortedJoin(xs, ";") + "]"
}

func evKind(s string) string {
	if i := strings.IndexByte(s, ':'); i >= 0 {
		return s[:i]
	}
	return s
}

func evNode(s string) string {
	p := strings.SplitN(s, ":", 3)
	if len(p) >= 2 {
		return p[1]
	}
	return ""
}

func delPrefix(s string) string {
	p := strings.Split(s, ":")
	if len(p) == 3 && p[0] == "del" {
		return p[1]
	}
	return ""
}

// canonRuns sorts maximal runs of consecutive del: events of the same node (Go map order
// inside a compaction drop).
func canonRuns(ev []string) []string {
	var out, run []string
	flush := func() {
		sort.Strings(run)
		out = append(out, run...)
		run = nil
	}
	for _, x := range ev {
		id := delPrefix(x)
		if id == "" {
			flush()
			out = append(out, x)
			continue
		}
		if len(run) > 0 && delPrefix(run[0]) != id {
			flush()
		}
		run = append(run, x)
	}
	flush()
	return out
}

// sortJoinRuns sorts maximal runs of consecutive join: events (ApplyDigest of a digest that
// was built in Go map order).
func sortJoinRuns(ev []string) []string {
	var out, run []string
	flush := func() {
		sort.Strings(run)
		out = append(out, run...)
		run = nil
	}
	for _, x := range ev {
		if evKind(x) == "join" {
			run = append(run, x)
			continue
		}
		flush()
		out = append(out, x)
	}
	flush()
	return out
}

// groupByNode stable-sorts events by the node they are about (ApplyDelta of a delta whose
// node order came out of a Go map; per-node order is kept).
func groupByNode(ev []string) []string {
	out := append([]string(nil), ev...)
	sort.SliceStable(out, func(i, j int) bool { return evNode(out[i]) < evNode(out[j]) })
	return out
}

const (
	evPlain   = iota // deterministic order (del runs sorted)
	evSorted         // map-order ops: sort everything
	evJoins          // stream request half / digest: join runs sorted
	evGrouped        // join reply: grouped by node
)

func canonEvents(ev []string, mode int) []string {
	switch mode {
	case evSorted:
		out := append([]string(nil), ev...)
		sort.Strings(out)
		return out
	case evJoins:
		return canonRuns(sortJoinRuns(ev))
	case evGrouped:
		return canonRuns(groupByNode(ev))
	}
	return canonRuns(ev)
}

func (e *engine) showDigest(d pg.VDigest) string {
	xs := make([]string, len(d))
	for i, x := range d {
		xs[i] = Hx(x.ID) + "@" + Hx(e.ca(x.Addr)) + ":v" + strconv.FormatUint(x.Version, 10) + ":L" + B01(x.Left)
	}
	return strings.Join(xs, ",")
}

func (e *engine) showDelta(d pg.VDelta) string {
	xs := make([]string, len(d))
	for i, x := range d {
		xs[i] = Hx(x.ID) + "@" + Hx(e.ca(x.Addr)) + "{" + showEntries(x.Entries) + "}"
	}
	return strings.Join(xs, "|")
}

func (e *engine) showPacket(p packet) string {
	if p.digest {
		h, d, err := pg.VDecodeDigest(p.b)
		if err != nil {
			return "digest(undecodable:" + err.Error() + ")"
		}
		return "digest(" + Hx(h.NodeID) + "@" + Hx(e.ca(h.Addr)) + ">" + Hx(e.ca(p.dst)) + ",r" + B01(h.Request) + ")[" + e.showDigest(d) + "]"
	}
	h, d, err := pg.VDecodeDelta(p.b)
	if err != nil {
		return "delta(undecodable:" + err.Error() + ")"
	}
	return "delta(" + Hx(h.NodeID) + "@" + Hx(e.ca(h.Addr)) + ">" + Hx(e.ca(p.dst)) + ")[" + e.showDelta(d) + "]"
}

func deltaItems(d pg.VDelta) int {
	n := 0
	for _, x := range d {
		n += 1 + len(x.Entries)
	}
	return n
}

func parseKV(pfx, s string) string {
	if !strings.HasPrefix(s, pfx) {
		panic("expected " + pfx + " got " + s)
	}
	return s[len(pfx):]
}

func sortDigest(d pg.VDigest) pg.VDigest {
	out := append(pg.VDigest(nil), d...)
	sort.SliceStable(out, func(i, j int) bool { return out[i].ID < out[j].ID })
	return out
}

func (e *engine) byRealAddr(addr string) *hnode {
	for _, id := range e.order {
		if e.nodes[id].raddr == addr {
			return e.nodes[id]
		}
	}
	return nil
}

func (e *engine) byCanonAddr(addr string) *hnode {
	for _, id := range e.order {
		if e.nodes[id].addr == addr {
			return e.nodes[id]
		}
	}
	return nil
}

// sect folds the pending watcher events of g (C14 oracle), runs the view oracles and
// returns `<id> st=[…] ev=[…]`.
func (e *engine) sect(g *hnode, mode int, o *Out) string {
	ev := g.w.take()
	e.foldEvents(g, ev, o)
	e.oracleViews(g, o)
	e.oracleOwn(g, o)
	return Hx(g.id) + " st=" + e.showState(g) + " ev=[" + strings.Join(canonEvents(ev, mode), ",") + "]"
}

// oracleOwn: C17/C02 - after EVERY operation (exchanges, joins and leaves included, not only local
// writes) the node's own live keys are exactly the reference last-write-wins map: nothing a peer sends,
// and nothing the node decodes into, may leak into its own published state (seed C17d: a join reply
// decoded over a delta that aliased the node's own cached entries).
func (e *engine) oracleOwn(g *hnode, o *Out) {
	own := g.st.LocalNode()
	live := map[string]string{}
	for _, en := range own.Entries {
		if !en.Deleted && !en.Internal {
			live[en.Key] = en.Value
		}
	}
	o.Count("oracle:C17:own-vs-reference")
	for k, v := range g.ref {
		if k == pg.VLeftKey || k == pg.VCompactKey {
			continue
		}
		if lv, ok := live[k]; !ok || lv != v {
			o.Fail("C17", "own-state-differs-from-reference", fmt.Sprintf("node=%s key=%s reference=%s own=%s present=%v", Hx(g.id), Hx(k), Hx(v), Hx(lv), ok))
			return
		}
	}
	for k := range live {
		if _, ok := g.ref[k]; !ok && k != pg.VLeftKey && k != pg.VCompactKey {
			o.Fail("C17", "own-state-differs-from-reference", fmt.Sprintf("node=%s key=%s is live in the own state but was never written (or was deleted)", Hx(g.id), Hx(k)))
			return
		}
	}
}

func (e *engine) showSent(sent []string) string { return " out=[" + strings.Join(sent, " ") + "]" }

// finishLocal: line of a local operation; a local write changes what every observer's view is
// compared against.
func (e *engine) finishLocal(g *hnode, op string, o *Out) string {
	s := e.sect(g, evPlain, o)
	for _, id := range e.order {
		if id != g.id {
			e.oracleViews(e.nodes[id], o)
		}
	}
	return op + " " + s + e.showSent(nil)
}

func hang(o *Out, what string) string {
	o.Fail("ANY", "hang", what+" did not return within the watchdog")
	return "err watchdog"
}

// ---------------------------------------------------------------- ops

func (e *engine) newNode(id, addr string) *hnode {
	var ln net.Listener
	for try := 0; try < 50; try++ {
		l, err := ListenRetry("tcp4", "127.0.0.1:0")
		if err != nil {
			panic("listen: " + err.Error())
		}
		if len(l.Addr().String()) == addrLen {
			ln = l
			break
		}
		_ = l.Close()
	}
	if ln == nil {
		panic("no 5-digit loopback port")
	}
	g := &hnode{id: id, addr: addr, raddr: ln.Addr().String(), ln: ln,
		w: &recWatcher{}, fd: &scriptFD{suspected: map[string]bool{}}, pc: &memPacketConn{},
		ref: map[string]string{}, hist: map[pg.Entry]bool{}, fold: map[string]*foldNode{},
		expired: map[string]bool{}, lastVer: map[string]uint64{}, wasLeft: map[string]bool{}}
	g.st = pg.VNewClusterState(id, g.raddr, g.fd, g.w)
	g.sl = pg.VNewStreamListener(ln, g.st, pg.VStreamTimeout)
	g.cfg = &pg.Config{BindAddr: g.raddr, AdvertiseAddr: g.raddr, Interval: time.Hour, MaxPacketSize: 1400}
	g.g = pg.VNewGossipNoSchedule(g.st, g.cfg, g.pc)
	e.canon[g.raddr] = addr
	go g.serve()
	return g
}

func (e *engine) Step(ws []string, o *Out) string {
	line := e.step(ws, o)
	if line == "err no-packet" || strings.HasPrefix(line, "err items-mismatch") {
		// the generator observed another schedule than this run (only possible when the code under
		// test behaves non-deterministically, e.g. a mutant iterating a map): the correspondence
		// already reports it; the settle oracle would only repeat it in a misleading form
		e.diverged = true
	}
	return line
}

func (e *engine) step(ws []string, o *Out) string {
	switch ws[0] {
	case "node":
		id, addr := Unhx(ws[1]), Unhx(ws[2])
		if len(addr) != addrLen {
			return "err bad-addr"
		}
		if _, ok := e.nodes[id]; ok || e.byCanonAddr(addr) != nil {
			return "err exists"
		}
		g := e.newNode(id, addr)
		e.nodes[id] = g
		e.order = append(e.order, id)
		return e.finishLocal(g, ws[0], o)
	case "upsert", "delete", "leave", "compact":
		g, ok := e.nodes[Unhx(ws[1])]
		if !ok {
			return "err no-node"
		}
		before := g.st.LocalNode()
		switch ws[0] {
		case "upsert":
			g.st.UpsertLocal(Unhx(ws[2]), Unhx(ws[3]))
		case "delete":
			g.st.DeleteLocal(Unhx(ws[2]))
		case "leave":
			g.st.LeaveLocal()
			g.dead = true
		case "compact":
			thr := Atoi(ws[2])
			if len(before.Entries) == 0 && thr <= 0 {
				// the real code indexes an empty slice; the model returns its panic constructor
				func() {
					defer func() {
						if recover() != nil {
							o.Count("compact:panic")
						}
					}()
					g.st.CompactLocal(thr)
				}()
				return "err panic"
			}
			g.st.CompactLocal(thr)
		}
		e.oracleLocal(g, ws, before, o)
		return e.finishLocal(g, ws[0], o)
	case "crash":
		g, ok := e.nodes[Unhx(ws[1])]
		if !ok {
			return "err no-node"
		}
		g.dead = true
		return "ok"
	case "hgossip":
		return e.hgossip(ws, o)
	case "hround":
		return e.hround(ws, o)
	case "hdeliver":
		return e.hdeliver(ws, o)
	case "hjoin", "hjoinlost", "hleave":
		return e.hstream(ws, o)
	case "hLeave":
		return e.hLeave(ws, o)
	case "converged":
		// are all listed nodes' views of each other exactly the owners' states?
		ids := strings.Split(ws[1], ",")
		conv, all := true, true
		for _, r := range ids {
			for _, a := range ids {
				if r == a {
					continue
				}
				gr, ga := e.nodes[Unhx(r)], e.nodes[Unhx(a)]
				if gr == nil || ga == nil {
					conv, all = false, false
					continue
				}
				V, ok := gr.st.Node(ga.id)
				O := ga.st.LocalNode()
				if !ok || V.Version != O.Version || showEntries(V.Entries) != showEntries(O.Entries) {
					conv = false
				}
			}
		}
		if len(ws) > 2 && ws[2] == "expect=1" && !conv && all && !e.diverged {
			o.Fail("C03", "not-converged-after-settle", "nodes="+ws[1])
		}
		o.Count("oracle:C03:converged")
		return "conv " + B01(conv)
	case "live":
		g, ok := e.nodes[Unhx(ws[1])]
		if !ok {
			return "err no-node"
		}
		sus := map[string]bool{}
		if ws[2] != "-" {
			for _, x := range strings.Split(ws[2], ",") {
				sus[Unhx(x)] = true
			}
		}
		g.fd.mu.Lock()
		g.fd.suspected = sus
		g.fd.mu.Unlock()
		own := e.showNode(g.st.LocalNode())
		g.st.UpdateLiveness(float64(pg.VSuspicionThreshold))
		if e.showNode(g.st.LocalNode()) != own {
			o.Fail("C11", "local-node-touched-by-liveness", Hx(g.id))
		}
		e.oracleLiveness(g, o)
		return ws[0] + " " + e.sect(g, evSorted, o) + e.showSent(nil)
	case "expire":
		g, ok := e.nodes[Unhx(ws[1])]
		if !ok {
			return "err no-node"
		}
		d := Atoi(ws[2])
		// expected: exactly the remembered nodes with an expiry set, when d is beyond the expiry period
		var want []string
		for _, m := range g.st.Nodes() {
			if !m.Expiry.IsZero() && time.Duration(d)*time.Second > pg.VNodeExpiry {
				want = append(want, m.ID)
			}
		}
		g.st.RemoveExpiredAt(time.Now().Add(time.Duration(d) * time.Second))
		ev := g.w.take()
		var got []string
		for _, x := range ev {
			if strings.HasPrefix(x, "exp:") {
				id := Unhx(x[4:])
				got = append(got, id)
				g.expired[id] = true
				delete(g.lastVer, id)
				delete(g.wasLeft, id)
				e.anyExp = true
			}
		}
		g.w.mu.Lock()
		g.w.ev = append(ev, g.w.ev...)
		g.w.mu.Unlock()
		sort.Strings(want)
		sort.Strings(got)
		if strings.Join(want, ",") != strings.Join(got, ",") {
			o.Fail("C11", "expiry-set", fmt.Sprintf("want=%q got=%q", want, got))
		}
		for _, id := range got {
			if _, ok := g.st.Node(id); ok {
				o.Fail("C11", "expired-but-remembered", Hx(id))
			}
		}
		return ws[0] + " " + e.sect(g, evSorted, o) + e.showSent(nil)
	}
	return "bad-op"
}

// checkDigestDatagram: oracle on one digest datagram emitted by the real gossip()/sendDigest.
// Returns the decoded header, the entries in sent order and whether the whole digest was sent.
func (e *engine) checkDigestDatagram(g *hnode, dg datagram, max int, wantReq bool, wantTo string, o *Out) (pg.VDigestHeader, pg.VDigest, bool, bool) {
	if len(dg.b) > max {
		o.Fail("C13", "exceeds-max", fmt.Sprintf("digest len=%d max=%d", len(dg.b), max))
	}
	h, d, err := pg.VDecodeDigest(dg.b)
	if err != nil {
		o.Fail("C13", "own-packet-undecodable", err.Error())
		return h, nil, false, false
	}
	if h.NodeID != g.id || h.Addr != g.raddr || h.Request != wantReq {
		o.Fail("C02", "digest-header-wrong", fmt.Sprintf("node=%s addr-ok=%v request=%v want=%v", Hx(h.NodeID), h.Addr == g.raddr, h.Request, wantReq))
	}
	if dg.to != wantTo {
		o.Fail("C03", "datagram-to-wrong-address", "digest from "+Hx(g.id))
	}
	state := map[string]pg.VDigestEntry{}
	for _, x := range g.st.Digest() {
		state[x.ID] = x
	}
	seen := map[string]bool{}
	for _, x := range d {
		if seen[x.ID] {
			o.Fail("C02", "digest-duplicate-entry", Hx(x.ID))
		}
		seen[x.ID] = true
		if sx, ok := state[x.ID]; !ok || sx != x {
			o.Fail("C02", "digest-entry-not-in-state", Hx(x.ID))
		}
	}
	// byte-exact against the codec's own encoder (which engine `codec` ties to the Lean codec)
	if want, err := pg.VEncodeDigest(h, d, huge); err != nil || !bytes.Equal(want, dg.b) {
		o.Fail("C13", "digest-encoding-differs-from-encodeDigest", Hx(g.id))
	}
	return h, d, len(d) == len(state), true
}

func (e *engine) hgossip(ws []string, o *Out) string {
	g, ok := e.nodes[Unhx(ws[1])]
	if !ok {
		return "err no-node"
	}
	dstID := Unhx(ws[2])
	if dstID == g.id {
		return "err self"
	}
	max := Atoi(parseKV("max=", ws[3]))
	var meta *pg.NodeMetadata
	for _, m := range g.st.Nodes() {
		if m.ID == dstID {
			mm := m
			meta = &mm
		}
	}
	if meta == nil {
		return "err unknown-dst"
	}
	g.cfg.MaxPacketSize = max
	g.pc.take()
	var err error
	if !guarded(func() { err = pg.VGossipNode(g.g, *meta) }) {
		return hang(o, "Gossip.gossip")
	}
	out := g.pc.take()
	if err != nil {
		if strings.Contains(err.Error(), "too small for header") {
			if len(out) != 0 {
				o.Fail("C13", "sent-despite-header-error", Hx(g.id))
			}
			return "err header-too-big"
		}
		o.Fail("ANY", "gossip-error", err.Error())
		return "err gossip-failed"
	}
	if len(out) != 1 {
		o.Fail("C03", "gossip-datagram-count", fmt.Sprintf("%d", len(out)))
		return fmt.Sprintf("err datagrams=%d", len(out))
	}
	h, d, fits, dec := e.checkDigestDatagram(g, out[0], max, true, meta.Addr, o)
	if !dec {
		return "err undecodable"
	}
	var sent []string
	if fits {
		b, _ := pg.VEncodeDigest(h, sortDigest(d), huge)
		pk := packet{digest: true, dst: out[0].to, b: b}
		e.pool = append(e.pool, pk)
		sent = append(sent, e.showPacket(pk))
		o.Count("hgossip:full")
	} else {
		sent = append(sent, "digest ~")
		o.Count("hgossip:truncated")
	}
	return ws[0] + " " + e.sect(g, evPlain, o) + e.showSent(sent)
}

// hround: one real Gossip.gossipRound().  The peers are drawn by the code itself (math/rand), so
// the line shows the two candidate sets and the number of requests; the oracle checks every
// request against them.  The datagrams are dropped (lost packets).
func (e *engine) hround(ws []string, o *Out) string {
	g, ok := e.nodes[Unhx(ws[1])]
	if !ok {
		return "err no-node"
	}
	max := Atoi(parseKV("max=", ws[2]))
	addrOf := func(ms []pg.NodeMetadata) (ids []string, addrs map[string]string) {
		addrs = map[string]string{}
		for _, m := range ms {
			ids = append(ids, Hx(m.ID))
			addrs[m.Addr] = m.ID
		}
		sort.Strings(ids)
		return
	}
	live, liveAddr := addrOf(g.st.LiveNodes())
	un, unAddr := addrOf(g.st.UnreachableNodes())
	g.cfg.MaxPacketSize = max
	g.pc.take()
	var err error
	if !guarded(func() { err = pg.VGossipRound(g.g) }) {
		return hang(o, "Gossip.gossipRound")
	}
	out := g.pc.take()
	tail := " live=[" + strings.Join(live, ",") + "] unreach=[" + strings.Join(un, ",") + "] sent=" + fmt.Sprint(len(out))
	if err != nil {
		if !strings.Contains(err.Error(), "too small for header") {
			o.Fail("ANY", "gossip-round-error", err.Error())
		}
		o.Count("hround:header-too-big")
		return ws[0] + " " + e.sect(g, evPlain, o) + tail
	}
	want := 0
	if len(live) > 0 {
		want++
	}
	if len(un) > 0 {
		want++
	}
	o.Count("oracle:C03:round")
	if len(out) != want {
		o.Fail("C03", "round-request-count", fmt.Sprintf("live=%d unreachable=%d requests=%d", len(live), len(un), len(out)))
	}
	for i, dg := range out {
		set, name := liveAddr, "live"
		if (len(live) == 0 && i == 0) || i == 1 {
			set, name = unAddr, "unreachable"
		}
		if _, ok := set[dg.to]; !ok {
			// C11: an unreachable peer keeps being probed, a left one is not contacted as live
			o.Fail("C03", "round-target-not-"+name, fmt.Sprintf("request %d of %s went to an address outside the %s set", i, Hx(g.id), name))
			o.Fail("C11", "round-target-not-"+name, fmt.Sprintf("request %d of %s went to an address outside the %s set", i, Hx(g.id), name))
		}
		e.checkDigestDatagram(g, dg, max, true, dg.to, o)
	}
	o.Count(fmt.Sprintf("hround:sent=%d", len(out)))
	return ws[0] + " " + e.sect(g, evPlain, o) + tail
}

func (e *engine) hdeliver(ws []string, o *Out) string {
	i := Atoi(ws[1])
	if i < 0 || i >= len(e.pool) {
		return "err no-packet"
	}
	max, items := Atoi(parseKV("max=", ws[2])), Atoi(parseKV("items=", ws[3]))
	pk := e.pool[i]
	g := e.byRealAddr(pk.dst)
	if g == nil {
		return "err no-dst"
	}
	e.lastItems = 0
	pl := pg.VNewPacketListener(g.pc, g.st, g.fd, max)
	g.pc.take()
	g.fd.takeReports()
	own := e.showNode(g.st.LocalNode())
	known := map[string]bool{}
	for _, m := range g.st.Nodes() {
		known[m.ID] = true
	}
	var herr error
	if !guarded(func() { herr = pg.VHandlePacket(pl, append([]byte(nil), pk.b...)) }) {
		return hang(o, "packetListener.handlePacket")
	}
	out := g.pc.take()
	reports := g.fd.takeReports()
	if e.showNode(g.st.LocalNode()) != own {
		o.Fail("C02", "own-state-changed-by-message", "node="+Hx(g.id))
	}
	var sent []string
	if pk.digest {
		h, d, err := pg.VDecodeDigest(pk.b)
		if err != nil {
			return "err undecodable"
		}
		e.oracleDigest(g, d, known, o)
		if herr != nil {
			ev := g.w.take()
			e.foldEvents(g, ev, o)
			e.oracleViews(g, o)
			if strings.Contains(herr.Error(), "too small for header") {
				return "err header-too-big"
			}
			o.Fail("ANY", "handler-error", herr.Error())
			return "err handler"
		}
		// what the reply must be a greedy whole-item prefix of (state is unchanged since ApplyDigest)
		want := g.st.Delta(d, false)
		nDelta, nDigest := 0, 0
		for _, dg := range out {
			if len(dg.b) > max {
				o.Fail("C13", "exceeds-max", fmt.Sprintf("len=%d max=%d", len(dg.b), max))
			}
			if dg.to != h.Addr {
				o.Fail("C03", "datagram-to-wrong-address", "reply of "+Hx(g.id))
			}
			if len(dg.b) > 0 && dg.b[0] == pg.VMessageTypeDelta {
				nDelta++
				hh, dd, err := pg.VDecodeDelta(dg.b)
				if err != nil {
					o.Fail("C13", "own-packet-undecodable", err.Error())
					return "err undecodable"
				}
				if hh.NodeID != g.id || hh.Addr != g.raddr {
					o.Fail("C02", "delta-header-wrong", Hx(hh.NodeID))
				}
				e.lastItems = deltaItems(dd)
				if items >= 0 && e.lastItems != items {
					return fmt.Sprintf("err items-mismatch real=%d line=%d", e.lastItems, items)
				}
				if wb, err := pg.VEncodeDelta(pg.VDeltaHeader{NodeID: g.id, Addr: g.raddr}, want, max); err != nil || !bytes.Equal(wb, dg.b) {
					o.Fail("C13", "reply-not-greedy-prefix-of-Delta(digest,false)", "node="+Hx(g.id))
				}
				if e.lastItems < deltaItems(want) {
					o.Count("delta:truncated")
				}
				e.oracleStall(g, want, dd, max, o)
				p := packet{dst: dg.to, b: dg.b}
				e.pool = append(e.pool, p)
				sent = append(sent, e.showPacket(p))
			} else {
				nDigest++
				hh, dd, fits, dec := e.checkDigestDatagram(g, dg, max, false, h.Addr, o)
				if !dec {
					return "err undecodable"
				}
				if fits {
					b, _ := pg.VEncodeDigest(hh, sortDigest(dd), huge)
					p := packet{digest: true, dst: dg.to, b: b}
					e.pool = append(e.pool, p)
					sent = append(sent, e.showPacket(p))
					o.Count("digest-reply:full")
				} else {
					sent = append(sent, "digest ~")
					o.Count("digest-reply:truncated")
				}
			}
		}
		if nDelta != 1 {
			o.Fail("C03", "digest-not-answered-with-one-delta", fmt.Sprintf("deltas=%d", nDelta))
		}
		if h.Request && nDigest == 0 {
			o.Fail("C03", "request-digest-unanswered", "node="+Hx(g.id)+" got a request digest from "+Hx(h.NodeID)+" and sent no digest back")
		}
		if !h.Request && nDigest != 0 {
			o.Fail("C03", "digest-reply-to-non-request", "node="+Hx(g.id))
		}
		// discovery: every entry not flagged left is known afterwards
		for _, de := range d {
			if !de.Left {
				if _, ok := g.st.Node(de.ID); !ok {
					o.Fail("C03", "digest-node-not-discovered", "observer="+Hx(g.id)+" node="+Hx(de.ID))
				}
			}
		}
		if len(reports) != 0 {
			o.Fail("C12", "digest-reported-to-fd", strings.Join(reports, ","))
		}
		o.Count("deliver:digest")
	} else {
		hh, d, err := pg.VDecodeDelta(pk.b)
		if err != nil {
			return "err undecodable"
		}
		if herr != nil {
			o.Fail("ANY", "handler-error", herr.Error())
			return "err handler"
		}
		if len(out) != 0 {
			o.Fail("C03", "delta-answered", fmt.Sprintf("datagrams=%d", len(out)))
		}
		if len(reports) != 1 || reports[0] != hh.NodeID {
			o.Fail("C12", "delta-not-reported-to-fd", fmt.Sprintf("node=%s sender=%s reports=%q", Hx(g.id), Hx(hh.NodeID), reports))
		}
		for _, de := range d {
			if de.ID != hh.NodeID {
				o.Count("deliver:relay")
				break
			}
		}
		o.Count("deliver:delta")
	}
	rs := make([]string, len(reports))
	for k, r := range reports {
		rs[k] = Hx(r)
	}
	return ws[0] + " " + e.sect(g, evJoins, o) + " fd=[" + strings.Join(rs, ",") + "]" + e.showSent(sent)
}

// oracleStall: C03 — the reply names a node with outstanding entries but carries none of them.
func (e *engine) oracleStall(g *hnode, delta, dd pg.VDelta, max int, o *Out) {
	for k, de := range delta {
		if len(de.Entries) == 0 {
			continue
		}
		carried := 0
		if k < len(dd) {
			carried = len(dd[k].Entries)
		}
		if carried == 0 {
			one, _ := pg.VEncodeDelta(pg.VDeltaHeader{NodeID: g.id, Addr: g.raddr}, pg.VDelta{{ID: de.ID, Addr: de.Addr, Entries: de.Entries[:1]}}, huge)
			if len(one) > max {
				o.Fail("C03", "stalled-oversize-entry", fmt.Sprintf("node=%s first outstanding entry needs %d bytes > max=%d (starves every later update of that node)", Hx(de.ID), len(one), max))
			} else if k == 0 {
				o.Fail("C03", "stalled-although-first-entry-fits", fmt.Sprintf("node=%s needs=%d max=%d", Hx(de.ID), len(one), max))
			}
		}
		break
	}
}

// hstream: hjoin / hjoinlost / hleave — the real client half at n against the real
// streamListener.handleConn of m over loopback TCP.
func (e *engine) hstream(ws []string, o *Out) string {
	n, ok1 := e.nodes[Unhx(ws[1])]
	m, ok2 := e.nodes[Unhx(ws[2])]
	if !ok1 || !ok2 {
		return "err no-node"
	}
	if n == m {
		return "err self"
	}
	ownM, ownN := e.showNode(m.st.LocalNode()), e.showNode(n.st.LocalNode())
	h0 := m.handled.Load()
	m.loseReply.Store(ws[0] == "hjoinlost")
	var err error
	var joined string
	call := func() {
		if ws[0] == "hleave" {
			err = pg.VGossipLeave(n.g, m.raddr)
		} else {
			joined, err = pg.VGossipJoin(n.g, m.raddr)
		}
	}
	if !guarded(call) {
		m.loseReply.Store(false)
		return hang(o, "Gossip."+ws[0][1:])
	}
	done := m.waitHandled(h0 + 1)
	m.loseReply.Store(false)
	if !done {
		return hang(o, "streamListener.handleConn")
	}
	if herr := m.handlerErr(); herr != nil {
		if strings.HasPrefix(herr.Error(), "PANIC") {
			o.Fail("ANY", "panic", "streamListener.handleConn: "+herr.Error())
		}
		o.Count("stream:handler-error")
	}
	if e.showNode(m.st.LocalNode()) != ownM || e.showNode(n.st.LocalNode()) != ownN {
		o.Fail("C02", "own-state-changed-by-message", "stream "+Hx(n.id)+">"+Hx(m.id))
	}
	switch ws[0] {
	case "hjoinlost":
		if err == nil {
			o.Fail("ANY", "harness", "join succeeded although the reply was dropped")
		}
	default:
		if err != nil {
			ms := e.sect(m, evJoins, o)
			ns := e.sect(n, evGrouped, o)
			_, _ = ms, ns
			o.Fail("ANY", "stream-error", ws[0]+": "+err.Error())
			return "err " + ws[0] + "-failed"
		}
	}
	// the request half carried n's complete own state: m's view of n is caught up
	On := n.st.LocalNode()
	if V, ok := m.st.Node(n.id); !ok || V.Version != On.Version || V.Left != On.Left {
		clause := "join-request-not-applied"
		prop := "C03"
		if ws[0] == "hleave" {
			clause, prop = "leave-stream-not-applied", "C11"
		}
		o.Fail(prop, clause, fmt.Sprintf("receiver=%s sender=%s known=%v", Hx(m.id), Hx(n.id), ok))
	}
	if ws[0] == "hjoin" {
		if joined != m.id {
			o.Fail("C03", "join-returned-wrong-id", Hx(joined))
		}
		// the reply is Delta(digest of n, full): afterwards n is nowhere behind m
		for _, mm := range m.st.Nodes() {
			if mm.ID == n.id {
				continue
			}
			if V, ok := n.st.Node(mm.ID); !ok || V.Version < mm.Version {
				o.Fail("C03", "join-view-behind-peer", fmt.Sprintf("joiner=%s peer=%s node=%s known=%v", Hx(n.id), Hx(m.id), Hx(mm.ID), ok))
			}
		}
		o.Count("stream:join")
	} else {
		o.Count("stream:" + ws[0][1:])
	}
	ms := e.sect(m, evJoins, o)
	ns := e.sect(n, evGrouped, o)
	return ws[0] + " " + ms + " from=" + ns + e.showSent(nil)
}

// hLeave: the real Gossip.Leave() at n.
func (e *engine) hLeave(ws []string, o *Out) string {
	n, ok := e.nodes[Unhx(ws[1])]
	if !ok {
		return "err no-node"
	}
	before := n.st.LocalNode()
	meta := map[string]pg.NodeMetadata{}
	candidates := 0
	for _, m := range n.st.Nodes() {
		meta[m.ID] = m
		if m.ID != n.id && !m.Left && !m.Unreachable {
			candidates++
		}
	}
	acc0 := map[string]int64{}
	for _, id := range e.order {
		acc0[id] = e.nodes[id].accepted.Load()
	}
	var lerr error
	if !guarded(func() { lerr = n.g.Leave() }) {
		return hang(o, "Gossip.Leave")
	}
	n.dead = true
	var notified []*hnode
	for _, id := range e.order {
		m := e.nodes[id]
		if !m.waitHandled(0) {
			return hang(o, "streamListener.handleConn")
		}
		if m.accepted.Load() > acc0[id] {
			notified = append(notified, m)
		}
	}
	sort.Slice(notified, func(i, j int) bool { return notified[i].id < notified[j].id })
	e.oracleLocal(n, []string{"leave", ws[1]}, before, o)
	if !n.st.LocalNode().Left {
		o.Fail("C11", "leave-did-not-mark-local-left", Hx(n.id))
	}
	if len(notified) > 4 {
		o.Fail("C11", "leave-notified-too-many", fmt.Sprintf("%d", len(notified)))
	}
	if candidates > 0 && len(notified) == 0 {
		o.Fail("C11", "leave-notified-nobody", fmt.Sprintf("live=%d err=%v", candidates, lerr))
	}
	if candidates <= 4 && len(notified) < candidates {
		o.Fail("C11", "leave-skipped-live-node", fmt.Sprintf("live=%d notified=%d", candidates, len(notified)))
	}
	On := n.st.LocalNode()
	var ids, sects []string
	for _, m := range notified {
		ids = append(ids, Hx(m.id))
		mm, known := meta[m.id]
		if m == n || !known || mm.Left || mm.Unreachable {
			o.Fail("C11", "leave-notified-dead-node", fmt.Sprintf("leaver=%s notified=%s known=%v left=%v unreachable=%v", Hx(n.id), Hx(m.id), known, mm.Left, mm.Unreachable))
		}
		if m != n {
			if V, ok := m.st.Node(n.id); !ok || !V.Left || V.Version != On.Version {
				o.Fail("C11", "leave-without-marker", fmt.Sprintf("notified=%s does not hold %s as left at its final version", Hx(m.id), Hx(n.id)))
			}
		}
	}
	o.Count(fmt.Sprintf("hLeave:notified=%d", len(notified)))
	line := ws[0] + " " + e.sect(n, evPlain, o) + " notified=[" + strings.Join(ids, ",") + "]"
	for _, m := range notified {
		if m != n {
			sects = append(sects, " @"+e.sect(m, evPlain, o))
		}
	}
	for _, id := range e.order {
		if id != n.id {
			e.oracleViews(e.nodes[id], o)
		}
	}
	return line + strings.Join(sects, "") + e.showSent(nil)
}

// ---------------------------------------------------------------- oracles (on the real code; clauses of eng/gossip)

// oracleLocal: C17 — own state is a last-write-wins map with fresh versions.
func (e *engine) oracleLocal(g *hnode, ws []string, before *pg.NodeState, o *Out) {
	after := g.st.LocalNode()
	for _, en := range after.Entries {
		g.hist[en] = true
	}
	o.Count("oracle:C17")
	reserved := func(k string) bool { return k == pg.VLeftKey || k == pg.VCompactKey }
	live := func(n *pg.NodeState) map[string]string {
		m := map[string]string{}
		for _, en := range n.Entries {
			if !en.Deleted && !en.Internal {
				m[en.Key] = en.Value
			}
		}
		return m
	}
	changed := false
	switch ws[0] {
	case "upsert":
		k, v := Unhx(ws[2]), Unhx(ws[3])
		if reserved(k) {
			return
		}
		old, had := g.ref[k]
		changed = !had || old != v
		g.ref[k] = v
	case "delete":
		k := Unhx(ws[2])
		if reserved(k) {
			return
		}
		_, had := g.ref[k]
		changed = had
		delete(g.ref, k)
	case "leave":
		changed = !before.Left
	case "compact":
		ran := false
		for _, en := range after.Entries {
			if en.Key == pg.VCompactKey && en.Internal && en.Version == after.Version && after.Version > before.Version {
				ran = true
			}
		}
		if ran {
			for _, en := range after.Entries {
				if en.Deleted {
					o.Fail("C17", "tombstone-after-compaction", Hx(en.Key))
				}
			}
			var ob, oa []string
			for _, en := range before.Entries {
				if !en.Deleted && !(en.Internal && en.Key == pg.VCompactKey) {
					ob = append(ob, en.Key)
				}
			}
			for _, en := range after.Entries {
				if !(en.Internal && en.Key == pg.VCompactKey) {
					oa = append(oa, en.Key)
				}
			}
			if strings.Join(ob, "\x00") != strings.Join(oa, "\x00") {
				o.Fail("C17", "compaction-reordered-or-lost-keys", fmt.Sprintf("%q -> %q", ob, oa))
			}
			o.Count("compact:ran")
		} else if after.Version != before.Version {
			o.Fail("C17", "noop-compaction-consumed-version", "")
		}
	}
	lv := live(after)
	if len(lv) != len(g.ref) {
		o.Fail("C17", "live-map-differs", fmt.Sprintf("have=%d want=%d", len(lv), len(g.ref)))
	}
	for k, v := range g.ref {
		if got, ok := lv[k]; !ok || got != v {
			o.Fail("C17", "live-map-differs", "key="+Hx(k)+" want="+Hx(v)+" got="+Hx(got)+" present="+B01(ok))
		}
	}
	if ws[0] != "compact" {
		if changed {
			if after.Version != before.Version+1 {
				o.Fail("C17", "effective-change-without-fresh-version", fmt.Sprintf("%d -> %d", before.Version, after.Version))
			}
			if len(after.Entries) == 0 || after.Entries[len(after.Entries)-1].Version != after.Version {
				o.Fail("C17", "touched-entry-not-newest", "")
			}
		} else if e.showNode(after) != e.showNode(before) {
			o.Fail("C17", "noop-changed-state", e.showNode(before)+" -> "+e.showNode(after))
		}
	}
	seen := map[uint64]bool{}
	for _, en := range after.Entries {
		if seen[en.Version] || en.Version > after.Version {
			o.Fail("C02", "versions-not-distinct-or-above-node-version", e.showNode(after))
		}
		seen[en.Version] = true
	}
}

// foldEvents: C14 — replay watcher notifications into a folded view.
func (e *engine) foldEvents(g *hnode, ev []string, o *Out) {
	for _, x := range ev {
		p := strings.SplitN(x, ":", 3)
		id := Unhx(p[1])
		f := g.fold[id]
		if p[0] != "join" && f == nil {
			o.Fail("C14", "event-before-join", x)
			continue
		}
		switch p[0] {
		case "join":
			if f != nil {
				o.Fail("C14", "duplicate-join", x)
			}
			if g.expired[id] {
				// re-learned after this observer expired it
				src := e.nodes[id]
				if src != nil && src.dead {
					o.Fail("C11", "relearn-after-expiry", "observer="+Hx(g.id)+" node="+Hx(id)+" (forgotten dead node learned again from a third party holding a copy not flagged left)")
				}
				delete(g.expired, id)
			}
			g.fold[id] = &foldNode{kv: map[string]string{}}
		case "leave":
			f.left = true
		case "unreach":
			if f.left {
				o.Fail("C04", "liveness-event-for-left-node", x+" (the routing table would show a departed node as unreachable)")
			}
			f.unrch = true
		case "reach":
			if f.left {
				o.Fail("C04", "liveness-event-for-left-node", x+" (the syncer sets a departed node ACTIVE again; LookupEndpoint may return it)")
				o.Fail("C11", "left-node-treated-as-live", x)
			}
			f.unrch = false
		case "exp":
			delete(g.fold, id)
		case "up":
			kv := strings.SplitN(p[2], "=", 2)
			f.kv[Unhx(kv[0])] = Unhx(kv[1])
		case "del":
			delete(f.kv, Unhx(p[2]))
		}
	}
}

// oracleViews: C14 fold == visible state; C02 clauses for every view g holds; C11 flag clauses.
func (e *engine) oracleViews(g *hnode, o *Out) {
	o.Count("oracle:views")
	metas := g.st.Nodes()
	seenLocal := false
	vis := map[string]bool{}
	for _, m := range metas {
		if m.ID == g.id {
			seenLocal = true
			if m.Unreachable || !m.Expiry.IsZero() {
				o.Fail("C11", "local-node-unreachable-or-expiring", Hx(g.id))
			}
			continue
		}
		vis[m.ID] = true
		V, _ := g.st.Node(m.ID)
		// ---- C14
		f := g.fold[m.ID]
		if f == nil {
			o.Fail("C14", "visible-node-never-announced", Hx(m.ID))
		} else {
			if f.left != V.Left || f.unrch != V.Unreachable {
				o.Fail("C14", "flags-differ", fmt.Sprintf("node=%s fold L%v U%v state L%v U%v", Hx(m.ID), f.left, f.unrch, V.Left, V.Unreachable))
			}
			kv := map[string]string{}
			for _, en := range V.Entries {
				if !en.Internal && !en.Deleted {
					kv[en.Key] = en.Value
				}
			}
			if len(kv) != len(f.kv) {
				o.Fail("C14", "fold-differs", fmt.Sprintf("node=%s fold=%d visible=%d", Hx(m.ID), len(f.kv), len(kv)))
			}
			for k, v := range kv {
				if fv, ok := f.kv[k]; !ok || fv != v {
					o.Fail("C14", "fold-differs", "node="+Hx(m.ID)+" key="+Hx(k))
				}
			}
		}
		// ---- C11 flags
		if g.wasLeft[m.ID] && !V.Left {
			o.Fail("C11", "left-flag-reset", "observer="+Hx(g.id)+" node="+Hx(m.ID))
		}
		g.wasLeft[m.ID] = V.Left
		if (V.Left || V.Unreachable) && V.Expiry.IsZero() {
			o.Fail("C11", "left-or-unreachable-without-expiry", Hx(m.ID))
		}
		if !V.Left && !V.Unreachable && !V.Expiry.IsZero() {
			o.Fail("C11", "expiry-not-cleared", Hx(m.ID))
		}
		owner := e.nodes[m.ID]
		if owner == nil {
			continue
		}
		if V.Addr != owner.raddr {
			o.Fail("C02", "view-address-differs-from-owner", Hx(m.ID))
		}
		O := owner.st.LocalNode()
		if V.Left {
			hasMarker := false
			for en := range owner.hist {
				if en.Key == pg.VLeftKey && en.Internal {
					hasMarker = true
				}
			}
			if !hasMarker {
				o.Fail("C11", "left-without-owner-leaving", Hx(m.ID))
			}
		}
		for _, en := range O.Entries {
			if en.Key == pg.VLeftKey && en.Internal && V.Version >= en.Version && !V.Left {
				o.Fail("C11", "left-marker-reached-but-not-left", Hx(m.ID))
			}
		}
		// ---- C02 (quantifier: no expiry in the history)
		if lv, ok := g.lastVer[m.ID]; ok && V.Version < lv {
			o.Fail("C02", "version-moved-backwards", fmt.Sprintf("observer=%s node=%s %d -> %d", Hx(g.id), Hx(m.ID), lv, V.Version))
		}
		g.lastVer[m.ID] = V.Version
		if e.anyExp {
			o.Count("C02:skipped-after-expiry")
			continue
		}
		o.Count("oracle:C02")
		if V.Version > O.Version {
			o.Fail("C02", "view-version-above-owner", fmt.Sprintf("node=%s view=%d owner=%d", Hx(m.ID), V.Version, O.Version))
		}
		vk := map[string]pg.Entry{}
		seen := map[uint64]bool{}
		for _, en := range V.Entries {
			vk[en.Key] = en
			if !owner.hist[en] {
				o.Fail("C02", "fabricated-entry", "observer="+Hx(g.id)+" node="+Hx(m.ID)+" "+showEntry(en))
			}
			if en.Version > V.Version || seen[en.Version] {
				o.Fail("C02", "view-entry-version", showEntry(en))
			}
			seen[en.Version] = true
		}
		ok := map[string]pg.Entry{}
		var marker *pg.Entry
		for i, en := range O.Entries {
			ok[en.Key] = en
			if en.Key == pg.VCompactKey && en.Internal {
				marker = &O.Entries[i]
			}
			if en.Version <= V.Version {
				if got, have := vk[en.Key]; !have || got != en {
					o.Fail("C02", "incomplete-at-reported-version", fmt.Sprintf("observer=%s node=%s v=%d missing-or-stale %s (view has %v)", Hx(g.id), Hx(m.ID), V.Version, showEntry(en), have))
				}
			}
		}
		if marker != nil && marker.Version <= V.Version {
			for k, en := range vk {
				if _, still := ok[k]; !still {
					o.Fail("C02", "compacted-key-still-visible", "observer="+Hx(g.id)+" node="+Hx(m.ID)+" "+showEntry(en))
				}
			}
		}
		if V.Version == O.Version {
			o.Count("C02:caught-up")
			if showEntries(V.Entries) != showEntries(O.Entries) || V.Left != O.Left {
				o.Fail("C03", "caught-up-but-different", "observer="+Hx(g.id)+" node="+Hx(m.ID))
			}
		}
	}
	if !seenLocal {
		o.Fail("C11", "local-node-removed", Hx(g.id))
	}
	for id := range g.fold {
		if !vis[id] {
			o.Fail("C14", "announced-node-not-visible", Hx(id))
		}
	}
}

// oracleDigest: C11(c) — a digest entry flagged left never teaches an unknown node.
func (e *engine) oracleDigest(g *hnode, d pg.VDigest, known map[string]bool, o *Out) {
	for _, de := range d {
		if de.Left && !known[de.ID] {
			if _, ok := g.st.Node(de.ID); ok {
				dup := false
				for _, x := range d {
					if x.ID == de.ID && !x.Left {
						dup = true
					}
				}
				if !dup {
					o.Fail("C11", "learned-from-left-digest", Hx(de.ID))
				}
			}
		}
	}
}

// oracleLiveness: C11(e) — the unreachable flag follows the suspicion level.
func (e *engine) oracleLiveness(g *hnode, o *Out) {
	for _, m := range g.st.Nodes() {
		if m.ID == g.id || m.Left {
			continue
		}
		if m.Unreachable != g.fd.isSuspected(m.ID) {
			o.Fail("C11", "unreachable-flag-vs-suspicion", Hx(m.ID))
		}
	}
	for _, m := range g.st.LiveNodes() {
		if m.Left || m.Unreachable || m.ID == g.id {
			o.Fail("C11", "live-nodes-contains-dead", Hx(m.ID))
		}
	}
}

// ---------------------------------------------------------------- generator

var keyAlphabet = []string{"k", "a", "b", "endpoint:e", "proxy_addr", "é✓"}
var valAlphabet = []string{"", "v", "1", "2", "x y", "✓"}

const settleMax = 100000

func canonAddr(i int) string { return fmt.Sprintf("127.0.0.1:%d", 10000+i) }

func (e *engine) Gen(r *rand.Rand, n int, tier string, w *bufio.Writer) {
	for c := 0; c < n; c++ {
		e.genCase(r, c, tier, w)
	}
}

func (e *engine) genCase(r *rand.Rand, c int, tier string, w *bufio.Writer) {
	sim := New().(*engine)
	sim.Reset()
	defer sim.closeAll()
	o := NewOut(bufio.NewWriter(discard{}))
	run := func(l string) {
		defer func() { _ = recover() }()
		sim.Step(strings.Fields(l), o)
	}
	emit := func(format string, a ...any) {
		l := fmt.Sprintf(format, a...)
		fmt.Fprintln(w, l)
		run(l)
	}
	// hdeliver with the item count observed on the private instance
	deliver := func(pi, max int) {
		l := fmt.Sprintf("hdeliver %d max=%d items=", pi, max)
		sim.lastItems = 0
		run(l + "-1")
		fmt.Fprintf(w, "%s%d\n", l, sim.lastItems)
	}
	fmt.Fprintf(w, "case gossiph-%d\n", c)
	nn := 2 + r.Intn(4)
	if r.Intn(8) == 0 {
		nn = 6
	}
	var ids []string
	for i := 0; i < nn; i++ {
		id := fmt.Sprintf("n%d", i)
		ids = append(ids, id)
		emit("node %s %s", Hx(id), Hx(canonAddr(i)))
	}
	nkeys := 1 + r.Intn(len(keyAlphabet))
	keys := keyAlphabet[:nkeys]
	mode := r.Intn(10) // 0-5: no membership ops (C02 quantifier, settle + converge); 6-9: leave/liveness/expiry
	nops := 20 + r.Intn(80)
	if tier == "thorough" {
		nops = 30 + r.Intn(200)
	}
	alive := func() []string {
		var xs []string
		for _, id := range ids {
			if g := sim.nodes[id]; g != nil && !g.dead {
				xs = append(xs, id)
			}
		}
		return xs
	}
	knownOthers := func(g *hnode) []string {
		var xs []string
		for _, m := range g.st.Nodes() {
			if m.ID != g.id {
				xs = append(xs, m.ID)
			}
		}
		sort.Strings(xs)
		return xs
	}
	digestSizes := func(g *hnode, req bool) (hdr, full int) {
		h := pg.VDigestHeader{NodeID: g.id, Addr: g.raddr, Request: req}
		hb, _ := pg.VEncodeDigest(h, nil, huge)
		fb, _ := pg.VEncodeDigest(h, g.st.Digest(), huge)
		return len(hb), len(fb)
	}
	gossipMax := func(g *hnode) int {
		hdr, full := digestSizes(g, true)
		switch x := r.Intn(100); {
		case x < 1:
			return hdr - 1 - r.Intn(5) // header does not fit
		case x < 15:
			return hdr + r.Intn(full-hdr) // truncating: hdr <= max < full
		case x < 40:
			return full // exactly fits
		case x < 60:
			return full + r.Intn(40)
		case x < 80:
			if full <= 1400 {
				return 1400
			}
			return full
		}
		return settleMax
	}
	deliverMax := func(pk packet) int {
		if !pk.digest {
			return Pick(r, []int{1400, 1400, 200, settleMax})
		}
		switch x := r.Intn(100); {
		case x < 35:
			return settleMax
		case x < 47:
			return 1400
		case x < 57:
			return Pick(r, []int{200, 400})
		case x < 59:
			return 20 + r.Intn(40) // often below the header
		}
		return 60 + r.Intn(340) // truncation points of small deltas
	}
	for i := 0; i < nops; i++ {
		al := alive()
		if len(al) == 0 {
			break
		}
		id := Pick(r, al)
		g := sim.nodes[id]
		x := r.Intn(100)
		switch {
		case x < 20:
			v := Pick(r, valAlphabet)
			if r.Intn(25) == 0 {
				v = strings.Repeat("L", 300+r.Intn(1500))
			}
			emit("upsert %s %s %s", Hx(id), Hx(Pick(r, keys)), Hx(v))
		case x < 28:
			emit("delete %s %s", Hx(id), Hx(Pick(r, keys)))
		case x < 33:
			emit("compact %s %d", Hx(id), 1+r.Intn(3)*r.Intn(2))
		case x < 50:
			ko := knownOthers(g)
			if len(ko) == 0 {
				m := Pick(r, ids)
				if m != id && !sim.nodes[m].dead {
					emit("hjoin %s %s", Hx(id), Hx(m))
				}
				continue
			}
			if r.Intn(5) == 0 {
				// a whole round: the code draws its own peers (one live, one unreachable)
				emit("hround %s max=%d", Hx(id), gossipMax(g))
			}
			emit("hgossip %s %s max=%d", Hx(id), Hx(Pick(r, ko)), gossipMax(g))
		case x < 82:
			if len(sim.pool) == 0 {
				continue
			}
			pi := r.Intn(len(sim.pool))
			if r.Intn(3) > 0 { // prefer recent packets
				pi = len(sim.pool) - 1 - r.Intn(1+len(sim.pool)/4)
			}
			dn := sim.byRealAddr(sim.pool[pi].dst)
			if dn != nil && dn.dead {
				continue
			}
			deliver(pi, deliverMax(sim.pool[pi]))
		case x < 92:
			m := Pick(r, al)
			if m == id {
				continue
			}
			switch y := r.Intn(10); {
			case y < 6:
				emit("hjoin %s %s", Hx(id), Hx(m))
			case y < 8:
				emit("hjoinlost %s %s", Hx(id), Hx(m))
			default:
				emit("hleave %s %s", Hx(id), Hx(m))
			}
		default:
			if mode < 6 {
				continue
			}
			switch r.Intn(8) {
			case 6:
				// a node that is unreachable at an observer leaves, the observer learns of it
				// (directly or relayed), then the suspicion drops again: it must stay left
				var obs []string
				for _, m := range al {
					if m != id {
						obs = append(obs, m)
					}
				}
				if len(obs) == 0 {
					continue
				}
				ob := Pick(r, obs)
				emit("hjoin %s %s", Hx(ob), Hx(id)) // make sure the observer knows the node
				emit("live %s %s", Hx(ob), Hx(id))
				emit("leave %s", Hx(id))
				if len(obs) > 1 && r.Intn(2) == 0 { // relayed through a third node
					via := Pick(r, obs)
					emit("hleave %s %s", Hx(id), Hx(via))
					emit("hjoin %s %s", Hx(ob), Hx(via))
				} else {
					emit("hleave %s %s", Hx(id), Hx(ob))
				}
				emit("live %s -", Hx(ob))
				emit("live %s %s", Hx(ob), Hx(id))
				emit("live %s -", Hx(ob))
			case 0, 7:
				if len(g.st.LiveNodes()) <= 4 {
					// the real Gossip.Leave notifies every live node when there are at most 4
					emit("hLeave %s", Hx(id))
				} else {
					// more than 4 live peers: rand.Shuffle decides; drive the halves explicitly
					emit("leave %s", Hx(id))
					live := g.st.LiveNodes()
					sort.Slice(live, func(i, j int) bool { return live[i].ID < live[j].ID })
					for _, p := range r.Perm(len(live))[:4] {
						emit("hleave %s %s", Hx(id), Hx(live[p].ID))
					}
				}
			case 1:
				emit("crash %s", Hx(id))
			case 2, 3:
				var sus []string
				metas := g.st.Nodes()
				sort.Slice(metas, func(i, j int) bool { return metas[i].ID < metas[j].ID })
				for _, m := range metas {
					if m.ID != id && (sim.nodes[m.ID] == nil || sim.nodes[m.ID].dead || r.Intn(5) == 0) && r.Intn(4) > 0 {
						sus = append(sus, Hx(m.ID))
					}
				}
				if r.Intn(3) == 0 { // the acting node's own id in the suspected set (must be ignored)
					sus = append(sus, Hx(id))
				}
				s := "-"
				if len(sus) > 0 {
					s = strings.Join(sus, ",")
				}
				emit("live %s %s", Hx(id), s)
			default:
				emit("expire %s %d", Hx(id), Pick(r, []int{-3600, 30, 90, 90, 600}))
			}
		}
	}
	// settle: updates stop; every ordered pair of alive nodes runs one full real gossip exchange
	// (gossip -> digest handler -> delta + digest reply -> delta handler, digest handler -> delta
	// handler) with everything fitting; then every view must equal its owner
	if mode < 6 {
		al := alive()
		for round := 0; round < 2; round++ {
			for _, a := range al {
				for _, b := range al {
					if a == b {
						continue
					}
					if _, ok := sim.nodes[a].st.Node(b); !ok {
						emit("hjoin %s %s", Hx(a), Hx(b))
					}
					p0 := len(sim.pool)
					emit("hgossip %s %s max=%d", Hx(a), Hx(b), settleMax)
					if len(sim.pool) != p0+1 {
						continue
					}
					deliver(p0, settleMax) // digest at b -> delta, digest reply
					p1 := len(sim.pool)
					for k := p0 + 1; k < p1; k++ {
						deliver(k, settleMax) // delta at a; digest reply at a -> delta to b
					}
					for k := p1; k < len(sim.pool); k++ {
						deliver(k, settleMax) // delta at b
					}
				}
			}
		}
		var hx []string
		for _, a := range al {
			hx = append(hx, Hx(a))
		}
		if len(hx) >= 2 {
			emit("converged %s expect=1", strings.Join(hx, ","))
		}
	}
}

type discard struct{}

func (discard) Write(p []byte) (int, error) { return len(p), nil }
