// Package auth is the correspondence engine for the authentication path (C09, C10): the real
// middleware.Auth on top of real JWTVerifier / MultiTenantVerifier instances, the gin engines
// built by the real proxy/upstream/admin constructors, and the endpoint/tenant confinement of
// the three route functions.  Tokens are minted by the harness from a recipe, so the ground
// truth (who signed what, which claim is off) is known; keys are generated once per process
// and never appear in the output.
package auth

import (
	"bufio"
	"bytes"
	"context"
	"crypto/ecdsa"
	"crypto/elliptic"
	"crypto/hmac"
	"crypto/rand"
	"crypto/rsa"
	"crypto/sha256"
	"crypto/sha512"
	"crypto/x509"
	"encoding/base64"
	"encoding/json"
	"encoding/pem"
	"fmt"
	"hash"
	"io"
	mrand "math/rand"
	"net"
	"net/http"
	"net/http/httptest"
	"net/url"
	"os"
	"sort"
	"strconv"
	"strings"
	"sync"
	"sync/atomic"
	"time"

	"github.com/gin-gonic/gin"
	"github.com/golang-jwt/jwt/v5"
	"github.com/gorilla/websocket"
	"github.com/prometheus/client_golang/prometheus"

	. "verifharness/core"

	pauth "github.com/andydunstall/piko/pkg/auth"
	"github.com/andydunstall/piko/pkg/log"
	"github.com/andydunstall/piko/pkg/middleware"
	"github.com/andydunstall/piko/server/admin"
	"github.com/andydunstall/piko/server/cluster"
	"github.com/andydunstall/piko/server/config"
	sgossip "github.com/andydunstall/piko/server/gossip"
	"github.com/andydunstall/piko/server/proxy"
	"github.com/andydunstall/piko/server/upstream"
)

// ---------------------------------------------------------------- key material (once per process)

const jwksDesc = "r1:rsa:RS256,e1:ec:-,h1:oct:HS256"

type keyring struct {
	rsaA, rsaB, rsaF *rsa.PrivateKey // default static key, JWKS r1, foreign
	ecJ, ecF         *ecdsa.PrivateKey
	hmacJ            []byte
	jwks             *pauth.LoadedJWKS
	jwksJSON         []byte
	pemA             []byte
	mu               sync.Mutex
	hmacs            map[string][]byte
	ecs              map[string]*ecdsa.PrivateKey
}

var (
	keysOnce sync.Once
	keys     *keyring
)

func b64(b []byte) string { return base64.RawURLEncoding.EncodeToString(b) }

func mustRSA() *rsa.PrivateKey {
	k, err := rsa.GenerateKey(rand.Reader, 2048)
	if err != nil {
		panic(err)
	}
	return k
}

func mustEC() *ecdsa.PrivateKey {
	k, err := ecdsa.GenerateKey(elliptic.P256(), rand.Reader)
	if err != nil {
		panic(err)
	}
	return k
}

func randBytes(n int) []byte {
	b := make([]byte, n)
	_, _ = rand.Read(b)
	return b
}

func getKeys() *keyring {
	keysOnce.Do(func() {
		k := &keyring{hmacs: map[string][]byte{}, ecs: map[string]*ecdsa.PrivateKey{}}
		var wg sync.WaitGroup
		wg.Add(3)
		go func() { defer wg.Done(); k.rsaA = mustRSA() }()
		go func() { defer wg.Done(); k.rsaB = mustRSA() }()
		go func() { defer wg.Done(); k.rsaF = mustRSA() }()
		k.ecJ, k.ecF = mustEC(), mustEC()
		k.hmacJ = randBytes(32)
		wg.Wait()
		der, _ := x509.MarshalPKIXPublicKey(&k.rsaA.PublicKey)
		k.pemA = pem.EncodeToMemory(&pem.Block{Type: "PUBLIC KEY", Bytes: der})
		// the JWK Set goes through the repository's own loading path (JWKSConfig.Load, file scheme)
		eBytes := []byte{byte(k.rsaB.E >> 16), byte(k.rsaB.E >> 8), byte(k.rsaB.E)}
		for len(eBytes) > 1 && eBytes[0] == 0 {
			eBytes = eBytes[1:]
		}
		pad := func(b []byte, n int) []byte {
			if len(b) >= n {
				return b
			}
			return append(make([]byte, n-len(b)), b...)
		}
		set := map[string]any{"keys": []any{
			map[string]any{"kty": "RSA", "kid": "r1", "alg": "RS256", "n": b64(k.rsaB.N.Bytes()), "e": b64(eBytes)},
			map[string]any{"kty": "EC", "kid": "e1", "crv": "P-256", "x": b64(pad(k.ecJ.X.Bytes(), 32)), "y": b64(pad(k.ecJ.Y.Bytes(), 32))},
			map[string]any{"kty": "oct", "kid": "h1", "alg": "HS256", "k": b64(k.hmacJ)},
		}}
		k.jwksJSON, _ = json.Marshal(set)
		var err error
		err = k.withJWKSFile(func(endpoint string) error {
			jc := pauth.JWKSConfig{Endpoint: endpoint}
			loaded, lerr := jc.Load(context.Background())
			k.jwks = loaded
			return lerr
		})
		if err != nil {
			panic("load jwks through pkg/auth: " + err.Error())
		}
		keys = k
	})
	return keys
}

// withJWKSFile runs f with a file:// endpoint serving the process's JWK Set.
func (k *keyring) withJWKSFile(f func(endpoint string) error) error {
	tf, err := os.CreateTemp("", "verif-jwks-*.json")
	if err != nil {
		return err
	}
	_, _ = tf.Write(k.jwksJSON)
	_ = tf.Close()
	defer os.Remove(tf.Name())
	return f("file://" + tf.Name())
}

func ecPEM(k *ecdsa.PrivateKey) string {
	der, _ := x509.MarshalPKIXPublicKey(&k.PublicKey)
	return string(pem.EncodeToMemory(&pem.Block{Type: "PUBLIC KEY", Bytes: der}))
}

func (k *keyring) hmacOf(owner string) []byte {
	k.mu.Lock()
	defer k.mu.Unlock()
	s, ok := k.hmacs[owner]
	if !ok {
		s = randBytes(32)
		k.hmacs[owner] = s
	}
	return s
}

func (k *keyring) ecOf(owner string) *ecdsa.PrivateKey {
	k.mu.Lock()
	defer k.mu.Unlock()
	s, ok := k.ecs[owner]
	if !ok {
		s = mustEC()
		k.ecs[owner] = s
	}
	return s
}

// ---------------------------------------------------------------- engine state

type cfgRec struct {
	hmac, rsa, ecdsa bool
	jwks             bool
	aud, iss         string
	ddoe             bool
	v                *pauth.JWTVerifier
	raw              *pauth.Config // set when built through Config.Load
}

type tokRec struct {
	str           string
	alg           string
	kid           string // "-" | "s:<hex>" | "num"
	signer        string
	owner, ref    string // for signer k:<owner>:<ref>
	tamper, shape string
	exp, nbf      *int64
	aud           []string
	iss           string
	eps           []string
	reallySigned  bool // signature produced with the (owner, ref) key for this alg
}

type fakeUp struct {
	ep string
	m  *fakeMgr
}

func (u *fakeUp) EndpointID() string { return u.ep }
func (u *fakeUp) Forward() bool      { return false }
func (u *fakeUp) Dial() (net.Conn, error) {
	u.m.mu.Lock()
	u.m.dialed = append(u.m.dialed, u.ep)
	u.m.mu.Unlock()
	c, s := net.Pipe()
	go func() {
		defer s.Close()
		_ = s.SetDeadline(time.Now().Add(3 * time.Second))
		r, err := http.ReadRequest(bufio.NewReader(s))
		if err != nil {
			return
		}
		_, _ = io.Copy(io.Discard, r.Body)
		_, _ = fmt.Fprintf(s, "HTTP/1.1 200 OK\r\nX-Stamp: %s\r\nContent-Length: 0\r\nConnection: close\r\n\r\n", Hx(u.ep))
	}()
	return c, nil
}

// fakeMgr is the upstream.Manager behind the real servers: an exact-match registry of fake
// upstreams that records every call (so that any request reaching a route is observed).
type fakeMgr struct {
	mu     sync.Mutex
	regs   map[string]*fakeUp
	sel    []string
	dialed []string
	added  []string
	addCh  chan string
	rmCh   chan string
}

func newFakeMgr() *fakeMgr {
	return &fakeMgr{regs: map[string]*fakeUp{}, addCh: make(chan string, 16), rmCh: make(chan string, 16)}
}

func (m *fakeMgr) Select(ep string, _ bool) (upstream.Upstream, bool) {
	m.mu.Lock()
	defer m.mu.Unlock()
	m.sel = append(m.sel, ep)
	u, ok := m.regs[ep]
	if !ok {
		return nil, false
	}
	return u, true
}

func (m *fakeMgr) AddConn(u upstream.Upstream) {
	m.mu.Lock()
	m.added = append(m.added, u.EndpointID())
	m.mu.Unlock()
	select {
	case m.addCh <- u.EndpointID():
	default:
	}
}

func (m *fakeMgr) RemoveConn(u upstream.Upstream) {
	select {
	case m.rmCh <- u.EndpointID():
	default:
	}
}

func (m *fakeMgr) observed() int {
	m.mu.Lock()
	defer m.mu.Unlock()
	return len(m.sel) + len(m.dialed) + len(m.added)
}

type srvRec struct {
	h    http.Handler
	auth bool
	ts   *httptest.Server
}

type authEngine struct {
	t0    time.Time
	cfgs  map[string]*cfgRec
	mtv   *pauth.MultiTenantVerifier
	ten   []string // configured tenants
	hasMT bool
	noVer bool // `mt … wire` decided the port gets no verifier
	toks  map[string]*tokRec
	mgr   *fakeMgr
	srvs  map[string]*srvRec
	// seconds since t0 at which token recipes are judged (advanced by `late`)
	nowRel int64
	// ONE middleware instance per `mt` (as a server has): anything it remembers between requests
	// - a cache of verified tokens, say - is exercised by the following `req` ops
	mw *middleware.Auth
}

// New returns the engine.
func New() Engine { return &authEngine{} }

func (e *authEngine) Reset() {
	for _, s := range e.srvs {
		if s.ts != nil {
			s.ts.Close()
		}
	}
	e.t0 = time.Now().Truncate(time.Second)
	e.cfgs = map[string]*cfgRec{}
	e.mtv, e.ten, e.hasMT, e.noVer = nil, nil, false, false
	e.toks = map[string]*tokRec{}
	e.mgr = newFakeMgr()
	e.srvs = map[string]*srvRec{}
	e.nowRel, e.mw = 0, nil
}

func hexList(s string) []string {
	if s == "-" || s == "none" {
		return nil
	}
	var out []string
	for _, p := range strings.Split(s, ",") {
		out = append(out, Unhx(p))
	}
	return out
}

// claimList parses a claim list: "none" = claim absent (nil), else the elements ("-" = "").
func claimList(s string) []string {
	if s == "none" {
		return nil
	}
	out := []string{}
	for _, p := range strings.Split(s, ",") {
		out = append(out, Unhx(p))
	}
	return out
}

func showList(xs []string) string {
	if len(xs) == 0 {
		return "none"
	}
	var ys []string
	for _, x := range xs {
		ys = append(ys, Hx(x))
	}
	return strings.Join(ys, ",")
}

func us(s string) string { return strings.ReplaceAll(s, " ", "_") }

// ---------------------------------------------------------------- minting

func algFam(alg string) string {
	switch alg {
	case "HS256", "HS384", "HS512":
		return "hs"
	case "RS256", "RS384", "RS512":
		return "rs"
	case "PS256", "PS384", "PS512":
		return "ps"
	case "ES256", "ES384", "ES512":
		return "es"
	case "EdDSA":
		return "ed"
	case "none":
		return "none"
	}
	return "unknown"
}

// keyKind is the Go key type behind a key reference of an owner's configuration ("" unknown).
func (e *authEngine) keyKind(owner, ref string) string {
	switch ref {
	case "hmac":
		return "oct"
	case "rsa":
		return "rsa"
	case "ecdsa":
		return "ec"
	}
	if strings.HasPrefix(ref, "jwk.") {
		c := e.cfgs[owner]
		if c == nil || !c.jwks {
			return ""
		}
		switch ref[4:] {
		case "r1":
			return "rsa"
		case "e1":
			return "ec"
		case "h1":
			return "oct"
		}
	}
	return ""
}

// canSign: the (alg, key) pairs the harness signs for real (HS* with a secret, RS*/PS* with an
// RSA key, ES256 with a P-256 key).
func canSign(alg, kind string) bool {
	switch kind {
	case "oct":
		return algFam(alg) == "hs"
	case "rsa":
		return algFam(alg) == "rs" || algFam(alg) == "ps"
	case "ec":
		return alg == "ES256"
	}
	return false
}

func hmacSign(alg string, secret []byte, msg string) []byte {
	var h func() hash.Hash
	switch alg {
	case "HS384":
		h = sha512.New384
	case "HS512":
		h = sha512.New
	default:
		h = sha256.New
	}
	m := hmac.New(h, secret)
	m.Write([]byte(msg))
	return m.Sum(nil)
}

func (e *authEngine) privKey(owner, ref string) any {
	k := getKeys()
	switch ref {
	case "hmac":
		return k.hmacOf(owner)
	case "rsa":
		if owner == "" {
			return k.rsaA
		}
		return nil
	case "ecdsa":
		return k.ecOf(owner)
	case "jwk.r1":
		return k.rsaB
	case "jwk.e1":
		return k.ecJ
	case "jwk.h1":
		return k.hmacJ
	}
	return nil
}

func (e *authEngine) sign(t *tokRec, msg string) ([]byte, bool) {
	k := getKeys()
	garbage := func() ([]byte, bool) { return randBytes(64), true }
	fam := algFam(t.alg)
	switch {
	case strings.HasPrefix(t.signer, "k:"):
		kind := e.keyKind(t.owner, t.ref)
		if !canSign(t.alg, kind) {
			return garbage()
		}
		key := e.privKey(t.owner, t.ref)
		if key == nil {
			return nil, false
		}
		if b, ok := key.([]byte); ok {
			t.reallySigned = true
			return hmacSign(t.alg, b, msg), true
		}
		sig, err := jwt.GetSigningMethod(t.alg).Sign(msg, key)
		if err != nil {
			return nil, false
		}
		t.reallySigned = true
		return sig, true
	case t.signer == "empty":
		if fam != "hs" {
			return garbage()
		}
		return hmacSign(t.alg, nil, msg), true
	case t.signer == "pem":
		if fam != "hs" {
			return garbage()
		}
		return hmacSign(t.alg, k.pemA, msg), true
	case t.signer == "foreign":
		switch {
		case fam == "hs":
			return hmacSign(t.alg, randBytes(32), msg), true
		case fam == "rs" || fam == "ps":
			sig, err := jwt.GetSigningMethod(t.alg).Sign(msg, k.rsaF)
			return sig, err == nil
		case t.alg == "ES256":
			sig, err := jwt.GetSigningMethod(t.alg).Sign(msg, k.ecF)
			return sig, err == nil
		}
		return garbage()
	case t.signer == "nosig":
		return nil, true
	case t.signer == "garbage":
		return garbage()
	}
	return nil, false
}

func (e *authEngine) mint(t *tokRec) bool {
	hdr := map[string]any{"typ": "JWT", "alg": t.alg}
	switch t.shape {
	case "noalg":
		delete(hdr, "alg")
	case "algnum":
		hdr["alg"] = 5
	}
	switch {
	case t.kid == "num":
		hdr["kid"] = 7
	case strings.HasPrefix(t.kid, "s:"):
		hdr["kid"] = Unhx(t.kid[2:])
	}
	claims := map[string]any{}
	if t.exp != nil {
		claims["exp"] = e.t0.Unix() + *t.exp
	}
	if t.nbf != nil {
		claims["nbf"] = e.t0.Unix() + *t.nbf
	}
	if t.aud != nil {
		claims["aud"] = t.aud
	}
	if t.iss != "" {
		claims["iss"] = t.iss
	}
	if t.eps != nil {
		claims["piko"] = map[string]any{"endpoints": t.eps}
	}
	switch t.shape {
	case "expstr":
		claims["exp"] = "soon"
	case "epsstr":
		claims["piko"] = map[string]any{"endpoints": "ep"}
	}
	hj, _ := json.Marshal(hdr)
	cj, _ := json.Marshal(claims)
	h, c := b64(hj), b64(cj)
	sig, ok := e.sign(t, h+"."+c)
	if !ok {
		return false
	}
	switch t.tamper {
	case "hdr":
		hdr["x"] = 1
		hj, _ = json.Marshal(hdr)
		h = b64(hj)
	case "pay":
		claims["x"] = 1
		if t.eps != nil {
			claims["piko"] = map[string]any{"endpoints": append(append([]string{}, t.eps...), "extra")}
		}
		if t.exp != nil {
			claims["exp"] = e.t0.Unix() + 7200
		}
		cj, _ = json.Marshal(claims)
		c = b64(cj)
	case "sig":
		if len(sig) > 0 {
			sig = append([]byte{}, sig...)
			sig[0] ^= 0x01
		} else {
			sig = []byte{1}
		}
	}
	s := b64(sig)
	switch t.shape {
	case "seg2":
		t.str = h + "." + c
	case "seg4":
		t.str = h + "." + c + "." + s + ".x"
	case "b64":
		t.str = "!" + h + "." + c + "." + s
	case "json":
		t.str = b64([]byte("{not json")) + "." + c + "." + s
	default:
		t.str = h + "." + c + "." + s
	}
	return true
}

// ---------------------------------------------------------------- requests

type reqSpec struct {
	x, a, tenant string
	xid, aid     string // token ids when the form is exactly `bearer`
}

func (e *authEngine) header(spec string) (val string, bearerID string, ok bool) {
	p := strings.SplitN(spec, ":", 2)
	if len(p) != 2 {
		return "", "", false
	}
	form, id := p[0], p[1]
	t := ""
	if form != "none" && form != "empty" && form != "bare" {
		tr := e.toks[id]
		if tr == nil {
			return "", "", false
		}
		t = tr.str
	}
	switch form {
	case "none":
		return "", "", true
	case "bearer":
		return "Bearer " + t, id, true
	case "lower":
		return "bearer " + t, "", true
	case "upper":
		return "BEARER " + t, "", true
	case "nospace":
		return "Bearer" + t, "", true
	case "dbl":
		return "Bearer  " + t, "", true
	case "basic":
		return "Basic " + t, "", true
	case "empty":
		return "Bearer ", "", true
	case "bare":
		return "Bearer", "", true
	case "raw":
		return t, "", true
	case "tab":
		return "Bearer\t" + t, "", true
	case "trail":
		return "Bearer " + t + " ", "", true
	}
	return "", "", false
}

func (e *authEngine) parseReq(x, a, tenant string) (*reqSpec, bool) {
	xv, xid, ok1 := e.header(x)
	av, aid, ok2 := e.header(a)
	if !ok1 || !ok2 {
		return nil, false
	}
	return &reqSpec{x: xv, a: av, tenant: Unhx(tenant), xid: xid, aid: aid}, true
}

func (r *reqSpec) apply(h http.Header) {
	if r.x != "" {
		h["X-Piko-Authorization"] = []string{r.x}
	}
	if r.a != "" {
		h["Authorization"] = []string{r.a}
	}
	if r.tenant != "" {
		h["X-Piko-Tenant-Id"] = []string{r.tenant}
	}
}

// gtValid is the property's own notion of an acceptable request, computed from the recipes
// (never through the model): the header that counts (x-piko-authorization first) is exactly
// `Bearer <token>`, the tenant header selects a configured verifier, and the token is intact,
// signed by a key configured for that verifier with an algorithm of the key's family,
// unexpired, not before nbf, with the configured audience and issuer.
func (e *authEngine) gtValid(r *reqSpec) (bool, *tokRec) {
	id := r.xid
	if r.x == "" {
		id = r.aid
		if r.a == "" {
			return false, nil
		}
	}
	if id == "" {
		return false, nil
	}
	t := e.toks[id]
	owner := ""
	if len(e.ten) > 0 {
		found := false
		for _, x := range e.ten {
			if x == r.tenant {
				found = true
			}
		}
		if !found || r.tenant == "" {
			return false, t
		}
		owner = r.tenant
	} else if r.tenant != "" {
		return false, t
	}
	c := e.cfgs[owner]
	if c == nil || t == nil {
		return false, t
	}
	if t.shape != "ok" || t.tamper != "none" || !t.reallySigned || t.owner != owner {
		return false, t
	}
	conf := false
	switch t.ref {
	case "hmac":
		conf = c.hmac
	case "rsa":
		conf = c.rsa
	case "ecdsa":
		conf = c.ecdsa
	default:
		conf = c.jwks && strings.HasPrefix(t.ref, "jwk.")
	}
	if !conf {
		return false, t
	}
	if t.exp != nil && *t.exp <= e.nowRel {
		return false, t
	}
	if t.nbf != nil && *t.nbf > e.nowRel {
		return false, t
	}
	if c.aud != "" {
		ok := false
		for _, a := range t.aud {
			if a == c.aud {
				ok = true
			}
		}
		if !ok {
			return false, t
		}
	}
	if c.iss != "" && t.iss != c.iss {
		return false, t
	}
	return true, t
}

// keylessSelected: the verifier the tenant header selects has no key at all.
func (e *authEngine) keylessSelected(r *reqSpec) bool {
	owner := ""
	if len(e.ten) > 0 {
		owner = r.tenant
		if owner == "" {
			return false
		}
	} else if r.tenant != "" {
		return false
	}
	c := e.cfgs[owner]
	return c != nil && !c.hmac && !c.rsa && !c.ecdsa && !c.jwks
}

type mwResult struct {
	panicked bool
	status   int
	reason   string
	ran      bool
	eps      []string
	tenant   string
	exp      string
}

func (m mwResult) String() string {
	if m.panicked {
		return "panic next=0"
	}
	if m.ran {
		return fmt.Sprintf("%d next=1 eps=%s tenant=%s exp=%s", m.status, showList(m.eps), Hx(m.tenant), m.exp)
	}
	r := m.reason
	if r == "" {
		r = "-"
	}
	return fmt.Sprintf("%d %s next=%s", m.status, us(r), B01(m.ran))
}

func jsonError(body []byte) string {
	var v map[string]any
	if json.Unmarshal(bytes.TrimSpace(body), &v) != nil {
		return ""
	}
	s, _ := v["error"].(string)
	return s
}

// runMiddleware drives the real middleware.Auth.Verify inside a gin engine.
func (e *authEngine) runMiddleware(r *reqSpec) (res mwResult) {
	eng := gin.New()
	if e.mw == nil {
		e.mw = middleware.NewAuth(e.mtv, log.NewNopLogger())
	}
	mw := e.mw
	eng.Use(mw.Verify)
	eng.NoRoute(func(c *gin.Context) {
		res.ran = true
		if v, ok := c.Get(middleware.TokenContextKey); ok {
			t := v.(*pauth.Token)
			res.eps = t.Endpoints
			res.tenant = t.TenantID
			if t.Expiry.IsZero() {
				res.exp = "none"
			} else {
				res.exp = strconv.FormatInt(t.Expiry.Unix()-e.t0.Unix(), 10)
			}
		} else {
			res.exp = "notoken"
		}
		c.Status(200)
	})
	req := httptest.NewRequest("GET", "http://piko.local/", nil)
	r.apply(req.Header)
	w := httptest.NewRecorder()
	func() {
		defer func() {
			if p := recover(); p != nil {
				res.panicked = true
			}
		}()
		eng.ServeHTTP(w, req)
	}()
	res.status = w.Code
	res.reason = jsonError(w.Body.Bytes())
	return res
}

// ---------------------------------------------------------------- servers

func (e *authEngine) verifierOrNil(auth bool) *pauth.MultiTenantVerifier {
	if !auth {
		return nil
	}
	return e.mtv
}

func (e *authEngine) buildServer(kind string, auth bool, registry, withCluster bool, keys []string) (http.Handler, bool) {
	logger := log.NewNopLogger()
	if os.Getenv("VERIF_AUTH_DEBUG") != "" {
		// the servers' own log (panics recovered by the routes, denied requests) on stderr
		if l, err := log.NewLogger("debug", nil); err == nil {
			logger = l
		}
	}
	cs := cluster.NewState(&cluster.Node{ID: "n1", ProxyAddr: "127.0.0.1:1", AdminAddr: "127.0.0.1:2"}, logger)
	// a second cluster node whose admin address is a live listener counting what reaches it:
	// the target of admin's `?forward=n2`
	cs.AddNode(&cluster.Node{ID: "n2", Status: cluster.NodeStatusActive, ProxyAddr: "127.0.0.1:1", AdminAddr: peerAdminAddr()})
	switch kind {
	case "proxy":
		s := proxy.NewServer(e.mgr, config.ProxyConfig{AccessLog: log.AccessLogConfig{Level: "info", Disable: true}},
			prometheus.NewRegistry(), e.verifierOrNil(auth), nil, logger)
		return proxy.VHandler(s), true
	case "upstream":
		s := upstream.NewServer(e.mgr, e.verifierOrNil(auth), nil, cs, config.UpstreamConfig{}, logger)
		return upstream.VHandler(s), true
	case "admin":
		var reg *prometheus.Registry
		if registry {
			reg = prometheus.NewRegistry()
		}
		var acs *cluster.State
		if withCluster {
			acs = cs
		}
		s := admin.NewServer(acs, reg, e.verifierOrNil(auth), nil, logger)
		for _, k := range keys {
			switch k {
			case "/upstream":
				s.AddStatus(k, upstream.NewStatus(upstream.NewLoadBalancedManager(cs, nil)))
			case "/cluster":
				s.AddStatus(k, cluster.NewStatus(cs))
			case "/gossip":
				s.AddStatus(k, sgossip.NewStatus(nil))
			default:
				return nil, false
			}
		}
		return admin.VHandler(s), true
	}
	return nil, false
}

var (
	peerOnce sync.Once
	peerSrv  *httptest.Server
	peerHits atomic.Int64
)

// peerAdminAddr is the admin address of the fake peer node n2 (one listener per process).
func peerAdminAddr() string {
	peerOnce.Do(func() {
		peerSrv = httptest.NewServer(http.HandlerFunc(func(w http.ResponseWriter, r *http.Request) {
			peerHits.Add(1)
			w.WriteHeader(http.StatusOK)
		}))
	})
	return strings.TrimPrefix(peerSrv.URL, "http://")
}

func routesOf(h http.Handler) []string {
	eng, ok := h.(*gin.Engine)
	if !ok {
		return nil
	}
	var xs []string
	for _, r := range eng.Routes() {
		xs = append(xs, r.Method+":"+r.Path)
	}
	sort.Strings(xs)
	return xs
}

var denyReasons = map[string]bool{
	"missing authorization": true, "invalid authorization": true, "unsupported auth type": true,
	"invalid token": true, "expired token": true, "unknown tenant": true,
}

// recorder is a ResponseRecorder that also satisfies http.CloseNotifier, which gin's
// response writer forwards to unconditionally (httputil.ReverseProxy asks for it).
type recorder struct {
	*httptest.ResponseRecorder
	ch chan bool
}

func (r *recorder) CloseNotify() <-chan bool { return r.ch }

type hitResult struct {
	class    string // deny | redirect | pass
	status   int
	reason   string
	observed bool
	stamp    string
	method   string
	path     string // request path
	location string // Location header of a redirect
}

func (e *authEngine) send(s *srvRec, method, target string, host *string, r *reqSpec, extra map[string]string) hitResult {
	if strings.Contains(target, "/debug/pprof/profile") || strings.Contains(target, "/debug/pprof/trace") {
		// bound the running time of the two sampling handlers when a request does get through
		target += "?seconds=1"
	}
	req := httptest.NewRequest(method, target, nil)
	if host != nil {
		req.Host = *host
	}
	r.apply(req.Header)
	for k, v := range extra {
		req.Header[k] = []string{v}
	}
	w := &recorder{ResponseRecorder: httptest.NewRecorder(), ch: make(chan bool)}
	before := e.mgr.observed()
	reqPath := req.URL.Path // gin's redirect rewrites req.URL.Path in place
	s.h.ServeHTTP(w, req)
	res := hitResult{status: w.Code, reason: jsonError(w.Body.Bytes()), observed: e.mgr.observed() != before,
		stamp: w.Header().Get("X-Stamp"), method: method, path: reqPath, location: w.Header().Get("Location")}
	switch {
	case w.Code == 401:
		// any 401 (the wording of the JSON error is not part of a property)
		res.class = "deny"
	case (w.Code == 301 || w.Code == 307) && w.Header().Get("Location") != "":
		res.class = "redirect"
	default:
		res.class = "pass"
	}
	return res
}

func (h hitResult) String() string {
	switch h.class {
	case "deny":
		return fmt.Sprintf("deny %d %s", h.status, us(h.reason))
	case "redirect":
		return fmt.Sprintf("redirect %d", h.status)
	}
	return "pass"
}

func pathURL(p string) string { return "http://piko.local" + (&url.URL{Path: p}).EscapedPath() }

// oracleHit: a request without an acceptable token must be answered 401 by the middleware and
// must not be observed by any route handler or upstream.
func (e *authEngine) oracleHit(o *Out, kind string, s *srvRec, valid bool, h hitResult, what string) {
	if !s.auth || valid {
		return
	}
	o.Count("oracle:C09:route")
	if h.observed {
		o.Fail("C09", "route-ran", "upstream-manager observed an unauthenticated request: "+what)
		return
	}
	switch h.class {
	case "deny":
	case "redirect":
		// gin answers a trailing-slash redirect before any middleware: no handler runs, but the
		// status is not 401 (known finding F7 redirect-before-auth).  tsr=1 only when the
		// redirect goes to the registered trailing-slash sibling of the requested path.
		tsr := 0
		if u, err := url.Parse(h.location); err == nil && u.Path == altSlash(h.path) && routeMatches(routesOf(s.h), h.method, u.Path) {
			tsr = 1
		}
		o.Count("unauthenticated-redirect")
		// reported once per (server, method, path, outcome) and process: the sweeps repeat it
		key := fmt.Sprintf("%s %s %s %d %d", kind, h.method, h.path, h.status, tsr)
		if reportedRedirects[key] {
			break
		}
		reportedRedirects[key] = true
		o.Fail("C09", "status-not-401", fmt.Sprintf("server=%s method=%s path=%s location=%s status=%d tsr=%d", kind, h.method, Hx(h.path), Hx(h.location), h.status, tsr))
	default:
		o.Fail("C09", "route-ran", fmt.Sprintf("unauthenticated request got status %d (%s): %s", h.status, us(h.reason), what))
	}
}

// routeMatches: some registered route of the method matches the path (":x" = one non-empty segment).
func routeMatches(routes []string, method, path string) bool {
	ps := strings.Split(path, "/")
	for _, r := range routes {
		i := strings.Index(r, ":")
		if r[:i] != method {
			continue
		}
		rs := strings.Split(r[i+1:], "/")
		if len(rs) != len(ps) {
			continue
		}
		ok := true
		for j := range rs {
			if strings.HasPrefix(rs[j], ":") {
				ok = ok && ps[j] != ""
			} else {
				ok = ok && rs[j] == ps[j]
			}
		}
		if ok {
			return true
		}
	}
	return false
}

func concretePath(p string) string {
	segs := strings.Split(p, "/")
	for i, s := range segs {
		if strings.HasPrefix(s, ":") || strings.HasPrefix(s, "*") {
			segs[i] = "x"
		}
	}
	return strings.Join(segs, "/")
}

func altSlash(p string) string {
	if strings.HasSuffix(p, "/") {
		return strings.TrimSuffix(p, "/")
	}
	return p + "/"
}

var reportedRedirects = map[string]bool{}

type probe struct{ method, path string }

func probesOf(routes []string) []probe {
	var ps []probe
	for _, r := range routes {
		i := strings.Index(r, ":")
		m, p := r[:i], concretePath(r[i+1:])
		other := "GET"
		if m == "GET" {
			other = "POST"
		}
		ps = append(ps, probe{m, p}, probe{m, altSlash(p)}, probe{other, p})
	}
	ps = append(ps, probe{"GET", "/"}, probe{"GET", "/no/such/path"}, probe{"POST", "/no/such/path"},
		probe{"DELETE", "/_piko/v1/tcp/x"}, probe{"HEAD", "/status"})
	return ps
}

// ---------------------------------------------------------------- Step

func optInt(s string) (*int64, bool) {
	if s == "-" {
		return nil, true
	}
	n, err := strconv.ParseInt(s, 10, 64)
	if err != nil {
		return nil, false
	}
	return &n, true
}

func (e *authEngine) Step(ws []string, o *Out) string {
	switch ws[0] {
	case "cfg":
		if len(ws) != 9 && len(ws) != 10 {
			return "bad-op"
		}
		via := "lit"
		if len(ws) == 10 {
			via = ws[9]
		}
		owner := Unhx(ws[1])
		c := &cfgRec{hmac: ws[2] == "1", rsa: ws[3] == "1", ecdsa: ws[4] == "1", jwks: ws[5] != "-",
			aud: Unhx(ws[6]), iss: Unhx(ws[7]), ddoe: ws[8] == "1"}
		if (c.jwks && (ws[5] != jwksDesc || owner != "")) || (c.rsa && owner != "") {
			return "bad-op keys"
		}
		k := getKeys()
		switch via {
		case "load":
			// the production path: auth.Config (strings, as flags/YAML give them) -> Load -> NewJWTVerifier
			raw := &pauth.Config{Audience: c.aud, Issuer: c.iss, DisableDisconnectOnExpiry: c.ddoe}
			if c.hmac {
				raw.HMACSecretKey = string(k.hmacOf(owner))
			}
			if c.rsa {
				raw.RSAPublicKey = string(k.pemA)
			}
			if c.ecdsa {
				raw.ECDSAPublicKey = ecPEM(k.ecOf(owner))
			}
			var lc *pauth.LoadedConfig
			load := func(endpoint string) error {
				raw.JWKS.Endpoint = endpoint
				var err error
				lc, err = raw.Load(context.Background())
				return err
			}
			var err error
			if c.jwks {
				err = k.withJWKSFile(load)
			} else {
				err = load("")
			}
			if err != nil {
				o.Count("cfg:load-error")
				return "load-error"
			}
			c.v, c.raw = pauth.NewJWTVerifier(lc), raw
			o.Count("cfg:load")
		case "lit":
			lc := &pauth.LoadedConfig{Audience: c.aud, Issuer: c.iss, DisableDisconnectOnExpiry: c.ddoe}
			if c.hmac {
				lc.HMACSecretKey = k.hmacOf(owner)
			}
			if c.rsa {
				// through the repository's own PEM parsing path
				pk, err := jwt.ParseRSAPublicKeyFromPEM(k.pemA)
				if err != nil {
					return "bad-op pem"
				}
				lc.RSAPublicKey = pk
			}
			if c.ecdsa {
				lc.ECDSAPublicKey = &k.ecOf(owner).PublicKey
			}
			if c.jwks {
				lc.JWKS = k.jwks
			}
			c.v = pauth.NewJWTVerifier(lc)
			o.Count("cfg:lit")
		default:
			return "bad-op"
		}
		e.cfgs[owner] = c
		return "ok"
	case "mt":
		d := e.cfgs[""]
		if d == nil || (len(ws) != 2 && !(len(ws) == 3 && ws[2] == "wire")) {
			return "bad-op"
		}
		ts := hexList(ws[1])
		var tv map[string]pauth.Verifier
		if len(ts) > 0 || len(ws) == 3 {
			tv = map[string]pauth.Verifier{}
		}
		for _, t := range ts {
			c := e.cfgs[t]
			if c == nil || (len(ws) == 3 && c.raw == nil) {
				return "bad-op"
			}
			tv[t] = c.v
		}
		if len(ws) == 3 {
			// server/server.go: a verifier only when the port's auth is enabled or it has tenants
			if d.raw == nil {
				return "bad-op"
			}
			if !(d.raw.Enabled() || len(ts) > 0) {
				e.mtv, e.ten, e.hasMT, e.noVer, e.mw = nil, nil, true, true, nil
				return "ok none"
			}
			e.mtv = pauth.NewMultiTenantVerifier(d.v, tv)
			e.ten, e.hasMT, e.noVer, e.mw = ts, true, false, nil
			return "ok verifier"
		}
		e.mtv = pauth.NewMultiTenantVerifier(d.v, tv)
		e.ten, e.hasMT, e.noVer, e.mw = ts, true, false, nil
		return "ok"
	case "tok":
		if len(ws) != 12 {
			return "bad-op"
		}
		t := &tokRec{alg: Unhx(ws[2]), kid: ws[3], signer: ws[4], tamper: ws[5], shape: ws[6], iss: Unhx(ws[10])}
		var ok1, ok2 bool
		t.exp, ok1 = optInt(ws[7])
		t.nbf, ok2 = optInt(ws[8])
		if !ok1 || !ok2 {
			return "bad-op"
		}
		t.aud = claimList(ws[9])
		t.eps = claimList(ws[11])
		if strings.HasPrefix(t.signer, "k:") {
			p := strings.SplitN(t.signer, ":", 3)
			if len(p) != 3 {
				return "bad-op"
			}
			t.owner, t.ref = Unhx(p[1]), p[2]
		}
		if !e.mint(t) {
			return "bad-op mint"
		}
		e.toks[ws[1]] = t
		o.Count("tok:alg:" + algFam(t.alg))
		o.Count("tok:signer:" + strings.SplitN(t.signer, ":", 2)[0])
		if t.tamper != "none" {
			o.Count("tok:tamper:" + t.tamper)
		}
		if t.shape != "ok" {
			o.Count("tok:shape:" + t.shape)
		}
		return "ok"
	case "req":
		if len(ws) != 4 || !e.hasMT {
			return "bad-op"
		}
		r, ok := e.parseReq(ws[1], ws[2], ws[3])
		if !ok {
			return "bad-op"
		}
		if e.noVer {
			return "auth no-verifier"
		}
		res := e.runMiddleware(r)
		valid, t := e.gtValid(r)
		o.Count("oracle:C09:decision")
		if e.keylessSelected(r) {
			// a verifier without any key is outside the property (authentication is "configured"
			// only with a key; server.go never consults such a verifier): model comparison only
			o.Count("req:keyless-verifier")
		} else if res.panicked {
			o.Count("req:panic")
		} else if res.ran {
			o.Count("req:accept")
			if !valid {
				o.Fail("C09", "accept-unsound", "accepted a request the token recipe does not justify: "+strings.Join(ws, " "))
				if len(e.ten) > 0 || r.tenant != "" {
					o.Fail("C10", "tenant", "accepted under tenant "+Hx(r.tenant)+" with tenants "+showList(e.ten)+": "+strings.Join(ws, " "))
				}
			} else if t != nil {
				if showList(res.eps) != showList(t.eps) {
					o.Fail("C10", "claim-altered", "handler saw endpoints "+showList(res.eps)+" token carries "+showList(t.eps))
				}
				if res.tenant != r.tenant {
					o.Fail("C10", "tenant", "token tenant "+Hx(res.tenant)+" header "+Hx(r.tenant))
				}
				// C16: the expiry the route handlers derive the connection deadline from is the token's
				// `exp`, unless disconnect-on-expiry is disabled for the verifier that accepted it
				owner := ""
				if len(e.ten) > 0 {
					owner = r.tenant
				}
				if c := e.cfgs[owner]; c != nil {
					o.Count("oracle:C16:expiry")
					want := "none"
					if t.exp != nil && !c.ddoe {
						want = strconv.FormatInt(*t.exp, 10)
					}
					if res.exp != want {
						o.Fail("C16", "token-expiry-lost", fmt.Sprintf("handler saw expiry %s, token exp %s (disconnect-on-expiry disabled=%v): %s", res.exp, want, c.ddoe, strings.Join(ws, " ")))
					}
				}
			}
		} else {
			o.Count("req:reject:" + us(res.reason))
			if res.status != 401 {
				o.Fail("C09", "reject-not-401", fmt.Sprintf("status %d for %s", res.status, strings.Join(ws, " ")))
			}
		}
		// precedence, directly on the code: with both headers present the decision must be the
		// one for x-piko-authorization alone
		if r.x != "" && r.a != "" {
			only := e.runMiddleware(&reqSpec{x: r.x, tenant: r.tenant, xid: r.xid})
			o.Count("oracle:C09:precedence")
			if only.String() != res.String() {
				o.Fail("C09", "precedence", "both headers: "+res.String()+" x-piko-authorization alone: "+only.String())
			}
		}
		tag := "auth "
		if len(e.ten) > 0 {
			tag = "tenant "
		}
		return tag + res.String()
	case "srv":
		if len(ws) < 3 || !e.hasMT {
			return "bad-op"
		}
		auth := ws[2] == "1" && !e.noVer
		var registry, withCluster bool
		var keys []string
		if len(ws) == 6 {
			registry, withCluster, keys = ws[3] == "1", ws[4] == "1", hexList(ws[5])
		}
		h, ok := e.buildServer(ws[1], auth, registry, withCluster, keys)
		if !ok {
			return "bad-op"
		}
		if old := e.srvs[ws[1]]; old != nil && old.ts != nil {
			old.ts.Close()
		}
		e.srvs[ws[1]] = &srvRec{h: h, auth: auth}
		return "srv routes " + strings.Join(routesOf(h), ",")
	case "hit":
		if len(ws) != 7 {
			return "bad-op"
		}
		s := e.srvs[ws[1]]
		r, ok := e.parseReq(ws[4], ws[5], ws[6])
		if s == nil || !ok {
			return "bad-op"
		}
		valid, _ := e.gtValid(r)
		h := e.send(s, ws[2], pathURL(Unhx(ws[3])), nil, r, nil)
		e.oracleHit(o, ws[1], s, valid, h, strings.Join(ws, " "))
		o.Count("hit:" + h.class)
		return "hit " + h.String()
	case "late":
		// the same request twice now and once more <dt> seconds after the case started (tokens
		// carry exp/nbf relative to the case start): a token accepted before its expiry must be
		// refused after it, however often it was presented before
		if len(ws) != 8 {
			return "bad-op"
		}
		s := e.srvs[ws[1]]
		r, ok := e.parseReq(ws[4], ws[5], ws[6])
		dt := Atoi(ws[7])
		if s == nil || !ok || dt <= 0 || dt > 30 {
			return "bad-op"
		}
		var outs []string
		for i := 0; i < 3; i++ {
			if i == 2 {
				if d := time.Until(e.t0.Add(time.Duration(dt)*time.Second + 150*time.Millisecond)); d > 0 {
					time.Sleep(d)
				}
				e.nowRel = int64(dt)
			}
			valid, _ := e.gtValid(r)
			h := e.send(s, ws[2], pathURL(Unhx(ws[3])), nil, r, nil)
			e.oracleHit(o, ws[1], s, valid, h, fmt.Sprintf("%s (presentation %d)", strings.Join(ws, " "), i+1))
			outs = append(outs, h.String())
		}
		o.Count("late")
		return "late " + strings.Join(outs, " | ")
	case "fwd":
		// hit with admin's `?forward=<node id>` query
		if len(ws) != 8 {
			return "bad-op"
		}
		s := e.srvs[ws[1]]
		r, ok := e.parseReq(ws[5], ws[6], ws[7])
		if s == nil || !ok {
			return "bad-op"
		}
		valid, _ := e.gtValid(r)
		before := peerHits.Load()
		h := e.send(s, ws[2], pathURL(Unhx(ws[3]))+"?forward="+url.QueryEscape(Unhx(ws[4])), nil, r, nil)
		o.Count("fwd:" + h.class)
		if s.auth && !valid && peerHits.Load() != before {
			o.Count("oracle:C09:route")
			o.Fail("C09", "forwarded-unauthenticated", "an unauthenticated request was forwarded to a peer node: "+strings.Join(ws, " "))
		} else {
			e.oracleHit(o, ws[1], s, valid, h, strings.Join(ws, " "))
		}
		return "hit " + h.String()
	case "sweep":
		if len(ws) != 5 {
			return "bad-op"
		}
		s := e.srvs[ws[1]]
		r, ok := e.parseReq(ws[2], ws[3], ws[4])
		if s == nil || !ok {
			return "bad-op"
		}
		valid, _ := e.gtValid(r)
		var out []string
		for _, p := range probesOf(routesOf(s.h)) {
			h := e.send(s, p.method, pathURL(p.path), nil, r, nil)
			e.oracleHit(o, ws[1], s, valid, h, ws[1]+" "+p.method+" "+p.path)
			o.Count("sweep:" + h.class)
			out = append(out, h.class[:1])
		}
		return "sweep " + strings.Join(out, "")
	case "up":
		if len(ws) != 2 {
			return "bad-op"
		}
		e.mgr.mu.Lock()
		e.mgr.regs = map[string]*fakeUp{}
		for _, ep := range hexList(ws[1]) {
			e.mgr.regs[ep] = &fakeUp{ep: ep, m: e.mgr}
		}
		e.mgr.mu.Unlock()
		return "ok"
	case "http", "tcp", "httpf", "tcpf", "tcpx":
		s := e.srvs["proxy"]
		if s == nil {
			return "bad-op"
		}
		// httpf/tcpf: the same request with a client-supplied `x-piko-forward: true`
		var fwdHdr map[string]string
		if strings.HasSuffix(ws[0], "f") {
			fwdHdr = map[string]string{"X-Piko-Forward": "true"}
			ws = append([]string{strings.TrimSuffix(ws[0], "f")}, ws[1:]...)
			o.Count("conf:forward-header")
		}
		var r *reqSpec
		var ok bool
		var h hitResult
		e.mgr.mu.Lock()
		e.mgr.sel, e.mgr.dialed = nil, nil
		e.mgr.mu.Unlock()
		if ws[0] == "http" {
			if len(ws) != 8 {
				return "bad-op"
			}
			host := Unhx(ws[1])
			hostnp, _, err := net.SplitHostPort(host)
			if err != nil {
				hostnp = host
			}
			isIP := net.ParseIP(hostnp) != nil
			if hostnp != Unhx(ws[2]) || B01(isIP) != ws[3] {
				return "bad-op lib " + Hx(hostnp) + " " + B01(isIP)
			}
			if r, ok = e.parseReq(ws[5], ws[6], ws[7]); !ok {
				return "bad-op"
			}
			extra := map[string]string{}
			if x := Unhx(ws[4]); x != "" {
				extra["X-Piko-Endpoint"] = x
			}
			for k, v := range fwdHdr {
				extra[k] = v
			}
			h = e.send(s, "GET", "http://piko.local/", &host, r, extra)
		} else if ws[0] == "tcpx" {
			// tcpx <raw path> <decoded path> <host> <hostnp> <isip> <xep> <x> <a> <tenant>
			if len(ws) != 10 {
				return "bad-op"
			}
			target := "http://127.0.0.1" + Unhx(ws[1])
			u, err := url.Parse(target)
			if err != nil || u.Path != Unhx(ws[2]) {
				return "bad-op lib"
			}
			host := Unhx(ws[3])
			hostnp, _, err := net.SplitHostPort(host)
			if err != nil {
				hostnp = host
			}
			if hostnp != Unhx(ws[4]) || B01(net.ParseIP(hostnp) != nil) != ws[5] {
				return "bad-op lib"
			}
			if r, ok = e.parseReq(ws[7], ws[8], ws[9]); !ok {
				return "bad-op"
			}
			extra := map[string]string{}
			if x := Unhx(ws[6]); x != "" {
				extra["X-Piko-Endpoint"] = x
			}
			h = e.send(s, "GET", target, &host, r, extra)
		} else {
			if len(ws) != 6 {
				return "bad-op"
			}
			target := "http://127.0.0.1/_piko/v1/tcp/" + Unhx(ws[1])
			u, err := url.Parse(target)
			if err != nil || u.Path != Unhx(ws[2]) {
				return "bad-op lib"
			}
			if r, ok = e.parseReq(ws[3], ws[4], ws[5]); !ok {
				return "bad-op"
			}
			lh := "127.0.0.1"
			h = e.send(s, "GET", target, &lh, r, fwdHdr)
		}
		e.mgr.mu.Lock()
		sel, dialed := append([]string{}, e.mgr.sel...), append([]string{}, e.mgr.dialed...)
		e.mgr.mu.Unlock()
		selS, stamp := "none", "-"
		if len(sel) > 0 {
			selS = Hx(sel[len(sel)-1])
		}
		if ws[0] == "http" || (ws[0] == "tcpx" && h.stamp != "") {
			if h.stamp != "" {
				stamp = h.stamp
			}
		} else if len(dialed) > 0 {
			stamp = Hx(dialed[len(dialed)-1])
		}
		valid, t := e.gtValid(r)
		e.oracleConf(o, s, valid, t, sel, dialed, strings.Join(ws, " "))
		if len(sel) > 1 {
			o.Fail("C10", "routed-twice", "Select called "+strconv.Itoa(len(sel))+" times")
		}
		reason := us(h.reason)
		if reason == "" {
			reason = "-"
		}
		o.Count("conf:" + ws[0] + ":" + strconv.Itoa(h.status))
		return fmt.Sprintf("conf %d %s sel=%s stamp=%s", h.status, reason, selS, stamp)
	case "reg":
		if len(ws) != 6 {
			return "bad-op"
		}
		s := e.srvs["upstream"]
		if s == nil {
			return "bad-op"
		}
		r, ok := e.parseReq(ws[3], ws[4], ws[5])
		if !ok {
			return "bad-op"
		}
		raw := Unhx(ws[1])
		u, err := url.Parse("http://127.0.0.1/piko/v1/upstream/" + raw)
		if err != nil || u.Path != Unhx(ws[2]) {
			return "bad-op lib"
		}
		if s.ts == nil {
			s.ts = httptest.NewServer(s.h)
		}
		e.mgr.mu.Lock()
		e.mgr.added = nil
		e.mgr.mu.Unlock()
		for len(e.mgr.addCh) > 0 {
			<-e.mgr.addCh
		}
		for len(e.mgr.rmCh) > 0 {
			<-e.mgr.rmCh
		}
		hdr := http.Header{}
		r.apply(hdr)
		d := websocket.Dialer{HandshakeTimeout: 3 * time.Second}
		conn, resp, derr := d.Dial("ws"+strings.TrimPrefix(s.ts.URL, "http")+"/piko/v1/upstream/"+raw, hdr)
		status, reason, reg := 0, "-", "none"
		var added []string
		if derr == nil {
			status = 101
			select {
			case ep := <-e.mgr.addCh:
				reg = Hx(ep)
				added = []string{ep}
			case <-time.After(3 * time.Second):
				reg = "timeout"
			}
			_ = conn.Close()
			select {
			case <-e.mgr.rmCh:
			case <-time.After(3 * time.Second):
			}
		} else if resp != nil {
			status = resp.StatusCode
			b, _ := io.ReadAll(io.LimitReader(resp.Body, 4096))
			if jr := jsonError(b); jr != "" {
				reason = us(jr)
			}
			e.mgr.mu.Lock()
			added = append([]string{}, e.mgr.added...)
			e.mgr.mu.Unlock()
		} else {
			return "conf dial-error " + us(derr.Error())
		}
		valid, t := e.gtValid(r)
		e.oracleConf(o, s, valid, t, added, nil, strings.Join(ws, " "))
		o.Count("conf:reg:" + strconv.Itoa(status))
		return fmt.Sprintf("conf %d %s reg=%s", status, reason, reg)
	}
	return "bad-op"
}

// oracleConf: C09 — nothing is routed/registered for a request without an acceptable token;
// C10 — a token that lists endpoints is routed to / registered under one of exactly those.
func (e *authEngine) oracleConf(o *Out, s *srvRec, valid bool, t *tokRec, routed, dialed []string, what string) {
	if !s.auth {
		return
	}
	o.Count("oracle:C10:confined")
	if !valid {
		if len(routed)+len(dialed) > 0 {
			o.Fail("C09", "route-ran", "request without an acceptable token was routed to "+showList(routed)+": "+what)
		}
		return
	}
	if t == nil || len(t.eps) == 0 {
		return
	}
	for _, ep := range append(append([]string{}, routed...), dialed...) {
		ok := false
		for _, p := range t.eps {
			if p == ep {
				ok = true
			}
		}
		if !ok {
			o.Fail("C10", "confined", "token endpoints "+showList(t.eps)+" but routed/registered "+Hx(ep)+": "+what)
		}
	}
}

// ---------------------------------------------------------------- generator

type gen struct {
	r *mrand.Rand
	w *bufio.Writer
	n int
	// late: the next server case ends with a `late` op (costs five seconds of real time)
	late bool
	// forceExp: the next valid token expires this many seconds after the case starts
	forceExp string
}

func (g *gen) p(format string, a ...any) { fmt.Fprintf(g.w, format+"\n", a...) }

func (g *gen) chance(pct int) bool { return g.r.Intn(100) < pct }

type gcfg struct {
	owner            string
	hmac, rsa, ecdsa bool
	jwks             bool
	aud, iss         string
	via              string
}

func (g *gen) cfg(owner string, keyless bool) gcfg {
	c := gcfg{owner: owner}
	if owner == "" {
		switch g.r.Intn(10) {
		case 0, 1:
			c.hmac = true
		case 2:
			c.rsa = true
		case 3:
			c.ecdsa = true
		case 4, 5:
			c.jwks = true
		case 6:
			c.hmac, c.rsa = true, true
		case 7:
			c.hmac, c.rsa, c.ecdsa = true, true, true
		case 8:
			c.rsa, c.ecdsa = true, true
		case 9:
			c.jwks, c.hmac = true, g.chance(50)
			c.rsa = !c.hmac
		}
		if keyless {
			c = gcfg{owner: owner}
		}
	} else {
		switch g.r.Intn(3) {
		case 0:
			c.hmac = true
		case 1:
			c.ecdsa = true
		case 2:
			c.hmac, c.ecdsa = true, true
		}
	}
	if g.chance(35) {
		c.aud = Pick(g.r, []string{"piko", "aud2"})
	}
	if g.chance(30) {
		c.iss = Pick(g.r, []string{"issuer", "https://issuer.example"})
	}
	jw := "-"
	if c.jwks {
		jw = jwksDesc
	}
	ddoe := B01(g.chance(25))
	c.via = "lit"
	mixed := c.jwks && (c.hmac || c.rsa || c.ecdsa)
	if mixed {
		if g.chance(30) {
			// Config.Load refuses a JWKS endpoint together with another key
			g.p("cfg %s %s %s %s %s %s %s %s load", Hx(owner), B01(c.hmac), B01(c.rsa), B01(c.ecdsa), jw, Hx(c.aud), Hx(c.iss), ddoe)
		}
	} else if g.chance(60) {
		c.via = "load" // the way server/server.go builds its verifiers
	}
	g.p("cfg %s %s %s %s %s %s %s %s %s", Hx(owner), B01(c.hmac), B01(c.rsa), B01(c.ecdsa), jw, Hx(c.aud), Hx(c.iss), ddoe, c.via)
	return c
}

type gtok struct {
	id    string
	valid bool
}

// refsOf lists the key references a configuration can verify with, with an alg that fits.
func refsOf(c gcfg) [][2]string {
	var xs [][2]string
	if c.jwks {
		xs = append(xs, [2]string{"jwk.r1", "RS256"}, [2]string{"jwk.e1", "ES256"}, [2]string{"jwk.h1", "HS256"})
		return xs
	}
	if c.hmac {
		xs = append(xs, [2]string{"hmac", "HS256"}, [2]string{"hmac", "HS384"}, [2]string{"hmac", "HS512"})
	}
	if c.rsa {
		xs = append(xs, [2]string{"rsa", "RS256"}, [2]string{"rsa", "RS512"})
	}
	if c.ecdsa {
		xs = append(xs, [2]string{"ecdsa", "ES256"})
	}
	return xs
}

var allAlgs = []string{"HS256", "HS384", "HS512", "RS256", "RS384", "RS512", "ES256", "ES384", "ES512", "PS256", "PS384", "EdDSA", "none", "NONE", "HS1", ""}

var epAlphabet = []string{"ep", "ep2", "e", "EP", "ep.", "my-endpoint", "my-endpoint2", "my%2Dendpoint", "é✓", "a b", " my-endpoint ", "ep "}

// tok emits one token for configuration c.  defect 0 = fully valid for c.
func (g *gen) tok(id string, c gcfg, defect int, eps []string) gtok {
	refs := refsOf(c)
	alg, ref := "HS256", "hmac"
	if len(refs) > 0 {
		p := refs[g.r.Intn(len(refs))]
		ref, alg = p[0], p[1]
	}
	kid := "-"
	if strings.HasPrefix(ref, "jwk.") && g.chance(80) {
		kid = "s:" + Hx(ref[4:])
	}
	signer := "k:" + Hx(c.owner) + ":" + ref
	tamper, shape := "none", "ok"
	exp, nbf := "-", "-"
	if g.chance(70) {
		exp = Pick(g.r, []string{"60", "300", "3600"})
	}
	if g.chance(25) {
		nbf = Pick(g.r, []string{"-60", "-300", "-3600"})
	}
	if g.forceExp != "" {
		exp, nbf = g.forceExp, "-"
	}
	aud, iss := "none", c.iss
	if c.aud != "" {
		aud = Hx(c.aud)
		if g.chance(40) {
			aud = Hx("other") + "," + Hx(c.aud)
		}
	} else if g.chance(20) {
		aud = Hx("whatever")
	}
	if c.iss == "" && g.chance(20) {
		iss = "someone"
	}
	valid := len(refs) > 0
	switch defect {
	case 0:
	case 1: // algorithm games
		alg = allAlgs[g.r.Intn(len(allAlgs))]
		valid = false // decided by the model/oracle, not by the generator
	case 2: // signer games
		signer = Pick(g.r, []string{"empty", "pem", "foreign", "nosig", "garbage"})
		if g.chance(50) {
			alg = Pick(g.r, []string{"HS256", "HS256", "HS512", "RS256", "ES256"})
		}
	case 3: // key of another verifier / other key kind
		signer = "k:" + Hx(Pick(g.r, []string{"", "t1", "t2"})) + ":" + Pick(g.r, []string{"hmac", "ecdsa", "jwk.r1", "jwk.e1", "jwk.h1", "jwk.zz"})
		alg = Pick(g.r, []string{"HS256", "ES256", "RS256", "PS256", "HS384"})
	case 4:
		tamper = Pick(g.r, []string{"hdr", "pay", "sig"})
	case 5:
		shape = Pick(g.r, []string{"seg2", "seg4", "b64", "json", "expstr", "epsstr", "noalg", "algnum"})
	case 6:
		exp = Pick(g.r, []string{"-60", "-300", "-3600"})
		if g.chance(30) {
			aud = Hx("wrong")
		}
	case 7:
		nbf = Pick(g.r, []string{"60", "300", "3600"})
	case 8:
		aud = Pick(g.r, []string{"none", Hx("wrong"), "-", Hx("PIKO"), Hx("wrong") + "," + Hx("piko2")})
	case 9:
		iss = Pick(g.r, []string{"", "wrong", "Issuer"})
	case 11: // the classic confusions: an HMAC over the empty secret or over the RSA public key PEM
		signer = Pick(g.r, []string{"empty", "empty", "pem"})
		alg = Pick(g.r, []string{"HS256", "HS256", "HS384", "HS512"})
		kid = Pick(g.r, []string{"-", "-", "s:" + Hx("r1"), "s:" + Hx("h1")})
	case 10: // kid games (JWKS)
		kid = Pick(g.r, []string{"-", "num", "s:" + Hx("zz"), "s:" + Hx("r1"), "s:" + Hx("e1"), "s:" + Hx("h1")})
		if g.chance(50) {
			alg = Pick(g.r, []string{"RS256", "RS384", "PS256", "ES256", "HS256", "HS512"})
		}
	}
	e := "none"
	if len(eps) > 0 {
		var hs []string
		for _, x := range eps {
			hs = append(hs, Hx(x))
		}
		e = strings.Join(hs, ",")
	}
	g.p("tok %s %s %s %s %s %s %s %s %s %s %s", id, Hx(alg), kid, signer, tamper, shape, exp, nbf, aud, Hx(iss), e)
	return gtok{id: id, valid: valid && defect == 0}
}

// emptyTok: an HS* token signed with the zero-length secret, every claim as configuration c
// wants it.  No configuration has the empty secret as a key, so it must never be accepted.
func (g *gen) emptyTok(id string, c gcfg, eps []string) {
	kid := "-"
	if c.jwks && g.chance(40) {
		kid = "s:" + Hx(Pick(g.r, []string{"h1", "r1", "e1"}))
	}
	aud := "none"
	if c.aud != "" {
		aud = Hx(c.aud)
	}
	e := "none"
	if len(eps) > 0 {
		var hs []string
		for _, x := range eps {
			hs = append(hs, Hx(x))
		}
		e = strings.Join(hs, ",")
	}
	g.p("tok %s %s %s empty none ok %s - %s %s %s", id, Hx(Pick(g.r, []string{"HS256", "HS384", "HS512"})), kid,
		Pick(g.r, []string{"-", "3600"}), aud, Hx(c.iss), e)
}

var claimSets = [][]string{nil, {"ep"}, {"ep", "my-endpoint"}, {"my-endpoint"}, {"EP"}, {"ep."}, {"my%2Dendpoint"}, {"é✓", "ep2"},
	// blank, whitespace-only, padded and duplicate entries: exact string equality on the claim as signed
	{""}, {" "}, {"", ""}, {" my-endpoint "}, {"ep", "ep"}, {"ep", ""}, {"\tep"}, {"ep "}}

var forms = []string{"bearer", "bearer", "bearer", "bearer", "bearer", "bearer", "bearer", "bearer", "bearer", "bearer", "bearer", "bearer",
	"lower", "upper", "nospace", "dbl", "basic", "empty", "bare", "raw", "tab", "trail"}

func (g *gen) hdrs(ids []string) (string, string) {
	id := func() string { return ids[g.r.Intn(len(ids))] }
	switch g.r.Intn(10) {
	case 0, 1, 2:
		return "none:-", Pick(g.r, forms) + ":" + id()
	case 3, 4, 5:
		return Pick(g.r, forms) + ":" + id(), "none:-"
	case 6, 7, 8:
		return Pick(g.r, forms) + ":" + id(), Pick(g.r, forms) + ":" + id()
	}
	return "none:-", "none:-"
}

func (g *gen) tenantsSetup(withTenants bool, keylessDefault bool) (gcfg, []gcfg) {
	d := g.cfg("", keylessDefault)
	var ts []gcfg
	if withTenants {
		for _, t := range []string{"t1", "t2"} {
			if t == "t1" || g.chance(70) {
				ts = append(ts, g.cfg(t, false))
			}
		}
	}
	var ids []string
	allLoad := d.via == "load"
	for _, t := range ts {
		ids = append(ids, Hx(t.owner))
		allLoad = allLoad && t.via == "load"
	}
	wire := ""
	if allLoad && g.chance(70) {
		wire = " wire" // server.go's rule: a verifier only if auth is enabled or tenants exist
	}
	if len(ids) == 0 {
		g.p("mt -%s", wire)
	} else {
		g.p("mt %s%s", strings.Join(ids, ","), wire)
	}
	return d, ts
}

func (g *gen) tenantHdr(ts []gcfg) string {
	if len(ts) == 0 {
		if g.chance(10) {
			return Hx("t1")
		}
		return "-"
	}
	switch g.r.Intn(10) {
	case 0:
		return "-"
	case 1, 2:
		return Hx(Pick(g.r, []string{"t3", "T1", "t10", "t"}))
	}
	return Hx(ts[g.r.Intn(len(ts))].owner)
}

// caseMW: the middleware in isolation over key configurations × token defects × header forms.
func (g *gen) caseMW(name string) {
	g.p("case %s", name)
	d, ts := g.tenantsSetup(g.chance(25), g.chance(4))
	all := append([]gcfg{d}, ts...)
	var ids []string
	nt := 2 + g.r.Intn(3)
	for i := 0; i < nt; i++ {
		c := all[g.r.Intn(len(all))]
		defect := 0
		if g.chance(55) {
			defect = 1 + g.r.Intn(11)
		}
		var eps []string
		if g.chance(40) {
			eps = claimSets[g.r.Intn(len(claimSets))]
		}
		id := strconv.Itoa(i + 1)
		g.tok(id, c, defect, eps)
		ids = append(ids, id)
	}
	// the empty-secret HS* token against every key configuration of the case
	ec := all[g.r.Intn(len(all))]
	g.emptyTok("9", ec, nil)
	for i := 0; i < 6+g.r.Intn(5); i++ {
		x, a := g.hdrs(ids)
		g.p("req %s %s %s", x, a, g.tenantHdr(ts))
	}
	et := "-"
	if len(ts) > 0 {
		et = Hx(ec.owner)
		if ec.owner == "" {
			et = g.tenantHdr(ts)
		}
	}
	if g.chance(50) {
		g.p("req none:- bearer:9 %s", et)
	} else {
		g.p("req bearer:9 %s:%s %s", Pick(g.r, []string{"none", "bearer"}), ids[0], et)
	}
}

// caseSrv: the real engines; every registered route, neighbours and unknown paths.
func (g *gen) caseSrv(name string) {
	g.p("case %s", name)
	kind := Pick(g.r, []string{"proxy", "upstream", "admin", "admin"})
	withTenants := kind == "upstream" && g.chance(40)
	d, ts := g.tenantsSetup(withTenants, false)
	c := d
	if len(ts) > 0 {
		c = ts[0]
	}
	g.tok("1", c, 0, nil)
	g.tok("2", c, 1+g.r.Intn(10), nil)
	g.tok("3", c, Pick(g.r, []int{2, 4, 5}), nil) // never acceptable
	g.emptyTok("4", c, nil)
	tenant := "-"
	if len(ts) > 0 {
		tenant = Hx(ts[0].owner)
	}
	var paths []string
	switch kind {
	case "proxy":
		g.p("srv proxy 1")
		paths = []string{"/", "/_piko/v1/tcp/ep", "/_piko/v1/tcp/ep/", "/_piko/v1/tcp", "/_piko/v1", "/foo/bar", "/_piko/v1/tcp/a/b"}
	case "upstream":
		g.p("srv upstream 1")
		paths = []string{"/piko/v1/upstream/ep", "/piko/v1/upstream/ep/", "/piko/v1/upstream", "/", "/piko/v1/upstream/a/b", "/health"}
	default:
		keys := "-"
		switch g.r.Intn(4) {
		case 0:
			keys = Hx("/upstream") + "," + Hx("/cluster") + "," + Hx("/gossip")
		case 1:
			keys = Hx("/cluster")
		case 2:
			keys = Hx("/upstream") + "," + Hx("/cluster")
		}
		g.p("srv admin 1 %s %s %s", B01(g.chance(70)), B01(g.chance(70)), keys)
		paths = []string{"/health", "/ready", "/metrics", "/debug/pprof/", "/debug/pprof", "/debug/pprof/heap", "/debug/pprof/cmdline",
			"/debug/pprof/symbol", "/status/cluster/nodes", "/status/cluster/nodes/local", "/status/cluster/nodes/n1", "/status/upstream/endpoints",
			"/status/cluster/nodes/", "/health/", "/nope", "/status", "/debug/pprof/profile", "/debug/pprof/trace", "/status/gossip/nodes"}
	}
	// sweeps with requests that carry no acceptable token
	g.p("sweep %s none:- none:- %s", kind, tenant)
	g.p("sweep %s %s:2 none:- %s", kind, Pick(g.r, []string{"lower", "upper", "nospace", "dbl", "basic", "raw", "tab", "trail"}), tenant)
	g.p("sweep %s none:- %s:3 %s", kind, Pick(g.r, []string{"bearer", "bearer", "lower", "nospace", "raw"}), tenant)
	if g.chance(50) {
		// a good Authorization must not rescue a bad x-piko-authorization
		g.p("sweep %s bearer:3 bearer:1 %s", kind, tenant)
	}
	g.p("sweep %s %s %s", kind, Pick(g.r, []string{"none:- bearer:4", "bearer:4 none:-", "bearer:4 bearer:1"}), tenant)
	for i := 0; i < 8; i++ {
		p := paths[g.r.Intn(len(paths))]
		m := Pick(g.r, []string{"GET", "GET", "GET", "POST", "DELETE", "HEAD"})
		x, a := "none:-", "none:-"
		valid := g.chance(40) && !strings.Contains(p, "/profile") && !strings.Contains(p, "/trace") && !strings.Contains(p, "/gossip")
		switch {
		case valid && g.chance(50):
			x = "bearer:1"
		case valid:
			a = "bearer:1"
		case strings.Contains(p, "/profile") || strings.Contains(p, "/trace"):
			x, a = g.hdrs([]string{"3"}) // the sampling handlers run for seconds: never let these through
		default:
			x, a = g.hdrs([]string{"2", "3"})
		}
		g.p("hit %s %s %s %s %s %s", kind, m, Hx(p), x, a, tenant)
		if kind == "admin" && g.chance(50) && !strings.Contains(p, "/profile") && !strings.Contains(p, "/trace") {
			// the same request asked to be forwarded: to the peer, to the local node, to nobody
			g.p("fwd %s %s %s %s %s %s %s", kind, m, Hx(p), Hx(Pick(g.r, []string{"n2", "n2", "n1", "zz"})), x, a, tenant)
		}
	}
	if g.late {
		// a token that expires five seconds after the case started, presented twice while valid
		// and once more two seconds after its expiry (whatever disconnect-on-expiry says)
		g.forceExp = "5"
		g.tok("5", c, 0, nil)
		g.forceExp = ""
		p := paths[0]
		x, a := "bearer:5", "none:-"
		if g.chance(40) {
			x, a = a, x
		}
		g.p("late %s GET %s %s %s %s 7", kind, Hx(p), x, a, tenant)
	}
}

func escapeSeg(r *mrand.Rand, s string) string {
	switch r.Intn(4) {
	case 0:
		return url.PathEscape(s)
	case 1: // escape one arbitrary byte
		b := []byte(s)
		if len(b) == 0 {
			return s
		}
		i := r.Intn(len(b))
		return url.PathEscape(string(b[:i])) + fmt.Sprintf("%%%02X", b[i]) + url.PathEscape(string(b[i+1:]))
	case 2:
		return url.PathEscape(s) + Pick(r, []string{"", "", "%2F", "/", "%2Fx"})
	}
	return url.PathEscape(s)
}

func hostFor(r *mrand.Rand, ep string) string {
	switch r.Intn(8) {
	case 0:
		return ep + ".piko.example.com:8000"
	case 1:
		return strings.ToUpper(ep) + ".piko.example.com"
	case 2:
		return ep + "."
	case 3:
		return ep
	case 4:
		return "10.0.0.7:8000"
	case 5:
		return "[::1]:8000"
	case 6:
		return ""
	}
	return ep + ".piko.example.com"
}

// caseConf: endpoint and tenant confinement on the real proxy and upstream servers.
func (g *gen) caseConf(name string) {
	g.p("case %s", name)
	d, ts := g.tenantsSetup(g.chance(35), false)
	all := append([]gcfg{d}, ts...)
	var ids []string
	var owners []string
	var claims [][]string
	for i := 0; i < 3+g.r.Intn(2); i++ {
		c := all[g.r.Intn(len(all))]
		if len(ts) > 0 && g.chance(70) {
			c = ts[g.r.Intn(len(ts))]
		}
		defect := 0
		if g.chance(15) {
			defect = 1 + g.r.Intn(10)
		}
		id := strconv.Itoa(i + 1)
		cl := claimSets[g.r.Intn(len(claimSets))]
		g.tok(id, c, defect, cl)
		ids = append(ids, id)
		owners = append(owners, c.owner)
		claims = append(claims, cl)
	}
	ec := all[g.r.Intn(len(all))]
	g.emptyTok("9", ec, nil)
	g.p("srv proxy 1")
	g.p("srv upstream 1")
	var reg []string
	for _, ep := range epAlphabet {
		if g.chance(60) {
			reg = append(reg, Hx(ep))
		}
	}
	if len(reg) == 0 {
		g.p("up -")
	} else {
		g.p("up %s", strings.Join(reg, ","))
	}
	{
		et := "-"
		if len(ts) > 0 {
			et = Hx(ec.owner)
		}
		raw := url.PathEscape(Pick(g.r, []string{"ep", "my-endpoint"}))
		if g.chance(50) {
			g.p("tcp %s %s none:- bearer:9 %s", Hx(raw), Hx("/_piko/v1/tcp/"+raw), et)
		} else {
			g.p("reg %s %s bearer:9 none:- %s", Hx(raw), Hx("/piko/v1/upstream/"+raw), et)
		}
	}
	for i := 0; i < 8+g.r.Intn(5); i++ {
		k := g.r.Intn(len(ids))
		x, a := "bearer:"+ids[k], "none:-"
		if g.chance(30) {
			x, a = a, x
		}
		if g.chance(15) {
			x, a = "bearer:"+ids[k], "bearer:"+ids[g.r.Intn(len(ids))]
		}
		tenant := "-"
		if len(ts) > 0 {
			tenant = Hx(owners[k])
			if g.chance(20) {
				tenant = g.tenantHdr(ts)
			}
		} else if g.chance(5) {
			tenant = Hx("t1")
		}
		ep := Pick(g.r, epAlphabet)
		if len(claims[k]) > 0 && g.chance(55) {
			ep = Pick(g.r, claims[k])
		}
		switch g.r.Intn(5) {
		case 4:
			// a path that extends (or misses) the TCP route, with an endpoint named by header/Host:
			// gin captures `:endpointID` on the partial match although the no-route chain runs
			host, xep := hostFor(g.r, Pick(g.r, epAlphabet)), ""
			if g.chance(70) {
				xep = Pick(g.r, epAlphabet)
			}
			if strings.ContainsAny(host, " é✓%") {
				host = "ep.piko.example.com"
			}
			hostnp, _, err := net.SplitHostPort(host)
			if err != nil {
				hostnp = host
			}
			if ep == "" {
				ep = "ep"
			}
			raw := Pick(g.r, []string{"/_piko/v1/tcp/" + url.PathEscape(ep) + "/" + Pick(g.r, []string{"x", "ep", "a/b"}),
				"/_piko/v1/tcp/" + url.PathEscape(ep), "/_piko/v1/tcpx/" + url.PathEscape(ep), "/" + url.PathEscape(ep),
				"/_piko/v1/tcp/" + url.PathEscape(ep) + "/x"})
			u, err := url.Parse("http://127.0.0.1" + raw)
			if err != nil {
				continue
			}
			g.p("tcpx %s %s %s %s %s %s %s %s %s", Hx(raw), Hx(u.Path), Hx(host), Hx(hostnp), B01(net.ParseIP(hostnp) != nil), Hx(xep), x, a, tenant)
		case 0, 1:
			host, xep := hostFor(g.r, ep), ""
			switch g.r.Intn(4) {
			case 0:
				xep = Pick(g.r, epAlphabet) // conflicting (or agreeing) header
			case 1:
				xep, host = ep, hostFor(g.r, Pick(g.r, epAlphabet))
			}
			if strings.ContainsAny(host, " é✓%") {
				host = "ep.piko.example.com"
			}
			hostnp, _, err := net.SplitHostPort(host)
			if err != nil {
				hostnp = host
			}
			g.p("%s %s %s %s %s %s %s %s", Pick(g.r, []string{"http", "http", "httpf"}), Hx(host), Hx(hostnp), B01(net.ParseIP(hostnp) != nil), Hx(xep), x, a, tenant)
		case 2:
			if ep == "" {
				ep = "ep" // an empty path segment is not a parameter value (gin's tree has its own rules there)
			}
			raw := escapeSeg(g.r, ep)
			u, err := url.Parse("http://127.0.0.1/_piko/v1/tcp/" + raw)
			if err != nil {
				continue
			}
			g.p("%s %s %s %s %s %s", Pick(g.r, []string{"tcp", "tcp", "tcpf"}), Hx(raw), Hx(u.Path), x, a, tenant)
		case 3:
			if ep == "" {
				ep = "ep"
			}
			raw := escapeSeg(g.r, ep)
			u, err := url.Parse("http://127.0.0.1/piko/v1/upstream/" + raw)
			if err != nil {
				continue
			}
			g.p("reg %s %s %s %s %s", Hx(raw), Hx(u.Path), x, a, tenant)
		}
	}
}

func (e *authEngine) Gen(r *mrand.Rand, n int, tier string, w *bufio.Writer) {
	g := &gen{r: r, w: w}
	lateEvery := 400 // one time-passing case per this many cases (each costs ~5 s of wall time)
	for i := 0; i < n; i++ {
		name := fmt.Sprintf("g%d", i)
		if i%lateEvery == lateEvery/2 {
			g.late = true
			g.caseSrv(name + "-srv-late")
			g.late = false
			continue
		}
		switch k := r.Intn(100); {
		case k < 45:
			g.caseMW(name + "-mw")
		case k < 62:
			g.caseSrv(name + "-srv")
		default:
			g.caseConf(name + "-conf")
		}
	}
}
