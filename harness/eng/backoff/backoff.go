// Package backoff is the correspondence engine for the reconnect backoff (C18: "upstream
// listeners reconnect to a surviving node (with exponential backoff on session loss)").
//
// It drives
//   - the real pkg/backoff.Backoff: every `call` line builds a real Backoff in exactly the
//     state written on the line (export-only shim), seeds the global math/rand source with the
//     seed of the line and calls the real Backoff(); `runs` lines go through the real New();
//   - the real client.Upstream.connect loop, reached through the public Upstream.Listen, against
//     a scripted fake server that answers the k-th dial as the op line says (websocket upgrade,
//     plain HTTP status, connection closed without a response), with cancellation injected at
//     two exactly defined points (in the handler of dial k before it answers; in the public
//     client.Logger hook between Backoff() and the wait).
//
// The jitter is rand.Float64() of the global source, so the wait a `call` line produces is a
// function of (state, seed): the generator runs the real code to obtain it and writes it on the
// line as <w>; the Lean model (`Backoff.step s w`) says whether that wait is one the
// specification allows in that state and what the next state is.  The oracle of this file
// checks the clauses of C18 directly on the real values, without the model.
package backoff

import (
	"bufio"
	"context"
	"errors"
	"fmt"
	"math/rand"
	"net/http"
	"net/http/httptest"
	"net/url"
	"regexp"
	"strconv"
	"strings"
	"sync"
	"sync/atomic"
	"time"

	gws "github.com/gorilla/websocket"
	"go.uber.org/zap"

	. "verifharness/core"

	"github.com/andydunstall/piko/client"
	pbackoff "github.com/andydunstall/piko/pkg/backoff"
)

// domain of the compared stream (model header): maxBackoff <= 2^52 ns
const domMax = int64(1) << 52

// probes (oracle only) stay below the int64 overflow of lastBackoff*2
const probeMax = int64(1) << 61

// defaults stated in the doc comments of client.Upstream ("Defaults to 100ms" / "Defaults to 15s")
const (
	defaultMinNs = int64(100 * time.Millisecond)
	defaultMaxNs = int64(15 * time.Second)
)

// retryable dial statuses (pkg/websocket: "HTTP status codes that should be retried")
var retryable = map[int]bool{408: true, 429: true, 500: true, 502: true, 503: true, 504: true}

type boEngine struct {
	caseFailed bool
	failCases  int
}

const maxFailCases = 20

// New returns the engine.
func New() Engine { return &boEngine{} }

func (e *boEngine) Reset() { e.caseFailed = false }

// fail reports an oracle failure: once per clause flood is pointless, so at most one per case
// and maxFailCases cases per process.
func (e *boEngine) fail(o *Out, clause, detail string) {
	if e.caseFailed {
		o.Count("oracle:C18:fail-suppressed")
		return
	}
	e.caseFailed = true
	e.failCases++
	if e.failCases > maxFailCases {
		o.Count("oracle:C18:fail-suppressed")
		return
	}
	o.Fail("C18", clause, detail)
}

// ---------------------------------------------------------------- the real Backoff

type callRes struct {
	w        int64
	ok       bool
	attempts int
	last     int64
}

func realCallOnce(retries, min, max, attempts, last, seed int64) callRes {
	b := pbackoff.VNewState(int(retries), time.Duration(min), time.Duration(max), int(attempts), time.Duration(last))
	rand.Seed(seed)
	w, ok := b.Backoff()
	return callRes{int64(w), ok, pbackoff.VAttempts(b), int64(pbackoff.VLastBackoff(b))}
}

// realCall = realCallOnce, repeated until two consecutive runs agree: the global source is
// shared with whatever goroutine of an earlier connect op may still be winding down (gorilla
// draws its frame mask keys from it), and a draw between Seed and Backoff() would shift the
// sequence.
func realCall(retries, min, max, attempts, last, seed int64) callRes {
	prev := realCallOnce(retries, min, max, attempts, last, seed)
	for i := 0; i < 6; i++ {
		cur := realCallOnce(retries, min, max, attempts, last, seed)
		if cur == prev {
			return cur
		}
		prev = cur
	}
	return prev
}

// unjittered is the wait before jitter as the property states it: the minimum the first time,
// twice the previous wait afterwards, never more than the maximum.
func unjittered(min, max, last int64) int64 {
	b := min
	if last != 0 {
		b = 2 * last
	}
	if b > max {
		b = max
	}
	return b
}

// checkWait: base <= w <= 1.1*base + 1, 0 <= w <= 1.1*max + 1.  slack is the relative float
// error admitted outside the exact domain (0 inside).
func checkWait(w, base, max, slack int64) string {
	if w < 0 {
		return "negative-wait"
	}
	if w < base-slack {
		return "wait-below-base"
	}
	if w > base+base/10+1+slack {
		return "wait-above-jitter"
	}
	if w > max+max/10+1+slack {
		return "wait-above-max"
	}
	return ""
}

func (e *boEngine) oracleCall(o *Out, retries, min, max, attempts, last int64, r callRes, slack int64, ctx string) {
	mustAbort := retries != 0 && attempts > retries
	if mustAbort {
		if r.ok {
			e.fail(o, "granted-beyond-retries", ctx)
		} else if r.w != 0 || int64(r.attempts) != attempts || r.last != last {
			e.fail(o, "abort-changes-state", fmt.Sprintf("%s w=%d attempts=%d last=%d", ctx, r.w, r.attempts, r.last))
		}
		return
	}
	if !r.ok {
		e.fail(o, "abort-within-retries", ctx)
		return
	}
	if c := checkWait(r.w, unjittered(min, max, last), max, slack); c != "" {
		e.fail(o, c, fmt.Sprintf("%s w=%d base=%d", ctx, r.w, unjittered(min, max, last)))
		return
	}
	if int64(r.attempts) != attempts+1 {
		e.fail(o, "attempts-not-counted", fmt.Sprintf("%s attempts=%d", ctx, r.attempts))
	}
	if r.last != r.w {
		e.fail(o, "last-wait-not-stored", fmt.Sprintf("%s w=%d last=%d", ctx, r.w, r.last))
	}
}

func showCall(r callRes) string {
	if r.ok {
		return fmt.Sprintf("call retry w=%d attempts=%d last=%d", r.w, r.attempts, r.last)
	}
	return fmt.Sprintf("call abort attempts=%d last=%d", r.attempts, r.last)
}

func i64(s string) int64 {
	n, err := strconv.ParseInt(s, 10, 64)
	if err != nil {
		panic("bad int " + s)
	}
	return n
}

// ---------------------------------------------------------------- ops

func (e *boEngine) Step(ws []string, o *Out) string {
	switch ws[0] {
	case "call":
		// call <retries> <min> <max> <attempts> <last> <seed> <w>
		if len(ws) != 8 {
			return "bad-op"
		}
		retries, min, max, attempts, last, seed := i64(ws[1]), i64(ws[2]), i64(ws[3]), i64(ws[4]), i64(ws[5]), i64(ws[6])
		r := realCall(retries, min, max, attempts, last, seed)
		e.oracleCall(o, retries, min, max, attempts, last, r, 0, strings.Join(ws, " "))
		if r.ok {
			o.Count("call:retry")
			if unjittered(min, max, last) == max {
				o.Count("call:capped")
			}
		} else {
			o.Count("call:abort")
		}
		return showCall(r)
	case "probe":
		// probe <retries> <min> <max> <attempts> <last> <seed>: oracle only (outside the exact domain)
		if len(ws) != 7 {
			return "bad-op"
		}
		retries, min, max, attempts, last, seed := i64(ws[1]), i64(ws[2]), i64(ws[3]), i64(ws[4]), i64(ws[5]), i64(ws[6])
		r := realCall(retries, min, max, attempts, last, seed)
		b := unjittered(min, max, last)
		e.oracleCall(o, retries, min, max, attempts, last, r, b>>50+2, strings.Join(ws, " "))
		return "probe ok"
	case "runs":
		// runs <retries> <min> <max> <calls> <seed>: the real New() and <calls> calls
		if len(ws) != 6 {
			return "bad-op"
		}
		return e.runs(o, i64(ws[1]), i64(ws[2]), i64(ws[3]), int(i64(ws[4])), i64(ws[5]), strings.Join(ws, " "))
	case "connect":
		return e.connect(o, ws)
	}
	return "bad-op"
}

func (e *boEngine) runs(o *Out, retries, min, max int64, calls int, seed int64, ctx string) string {
	b := pbackoff.New(int(retries), time.Duration(min), time.Duration(max))
	if pbackoff.VAttempts(b) != 0 || pbackoff.VLastBackoff(b) != 0 {
		e.fail(o, "new-not-fresh", ctx)
	}
	if r, mn, mx := pbackoff.VParams(b); int64(r) != retries || int64(mn) != min || int64(mx) != max {
		e.fail(o, "new-params", ctx)
	}
	rand.Seed(seed)
	granted, aborted := 0, 0
	last := int64(0)
	for i := 0; i < calls; i++ {
		w, ok := b.Backoff()
		if !ok {
			aborted++
			if w != 0 {
				e.fail(o, "abort-with-wait", ctx)
			}
			continue
		}
		if aborted > 0 {
			e.fail(o, "granted-after-abort", ctx)
		}
		granted++
		if c := checkWait(int64(w), unjittered(min, max, last), max, 0); c != "" {
			e.fail(o, c, fmt.Sprintf("%s call=%d w=%d prev=%d", ctx, i, int64(w), last))
		}
		last = int64(w)
	}
	want := calls
	if retries != 0 && calls > int(retries)+1 {
		want = int(retries) + 1
	}
	if granted != want {
		e.fail(o, "granted-count", fmt.Sprintf("%s granted=%d want=%d", ctx, granted, want))
	}
	if r, mn, mx := pbackoff.VParams(b); int64(r) != retries || int64(mn) != min || int64(mx) != max {
		e.fail(o, "params-changed", ctx)
	}
	return fmt.Sprintf("runs granted=%d aborted=%d attempts=%d", granted, aborted, pbackoff.VAttempts(b))
}

// ---------------------------------------------------------------- Upstream.connect

// hookLog is a client.Logger: connect logs "connect failed; retrying" (with the wait as the
// field `backoff`) after every Backoff() call and right before it starts the wait.
type hookLog struct {
	mu          sync.Mutex
	waits       []int64
	unparsed    int
	cancelAfter int
	cancel      func()
}

func (l *hookLog) Debug(string, ...zap.Field) {}
func (l *hookLog) Info(string, ...zap.Field)  {}
func (l *hookLog) Error(string, ...zap.Field) {}
func (l *hookLog) Sync() error                { return nil }
func (l *hookLog) Warn(msg string, fs ...zap.Field) {
	// the retry announcement is recognised by its `backoff` field, not by its text
	w := int64(-1)
	has := false
	for _, f := range fs {
		if f.Key == "backoff" {
			has = true
			if d, err := time.ParseDuration(f.String); err == nil {
				w = int64(d)
			}
		}
	}
	if !has && msg != "connect failed; retrying" {
		return
	}
	l.mu.Lock()
	if w < 0 {
		l.unparsed++
	}
	l.waits = append(l.waits, w)
	n := len(l.waits)
	l.mu.Unlock()
	if n == l.cancelAfter {
		l.cancel()
	}
}

type fakeSrv struct {
	script   []string
	n        atomic.Int64
	beyond   chan struct{}
	release  chan struct{}
	cancelAt int
	cancel   func()
	mu       sync.Mutex
	conns    []*gws.Conn
	// cancel-after fallback (see ServeHTTP)
	cancelAfter int
	announced   func() int
}

var upgrader = gws.Upgrader{}

func (s *fakeSrv) ServeHTTP(w http.ResponseWriter, r *http.Request) {
	k := int(s.n.Add(1))
	if k > len(s.script) {
		// a dial after the scripted ones: the loop was still retrying; hold it unanswered
		select {
		case s.beyond <- struct{}{}:
		default:
		}
		<-s.release
		closeRaw(w)
		return
	}
	if k == s.cancelAt {
		s.cancel()
	}
	if k == s.cancelAfter && s.announced != nil {
		// fallback for a client that does not announce its waits (the hook of hookLog is the
		// precise trigger): cancel a few milliseconds into the wait that follows this dial
		go func() {
			time.Sleep(8 * time.Millisecond)
			if s.announced() < k {
				s.cancel()
			}
		}()
	}
	ent := s.script[k-1]
	switch {
	case ent == "ok":
		c, err := upgrader.Upgrade(w, r, nil)
		if err == nil {
			s.mu.Lock()
			s.conns = append(s.conns, c)
			s.mu.Unlock()
		}
	case ent == "refuse":
		closeRaw(w)
	case strings.HasPrefix(ent, "status:"):
		w.WriteHeader(Atoi(ent[len("status:"):]))
	case strings.HasPrefix(ent, "statusj:"):
		// the JSON error body piko's servers send
		w.Header().Set("content-type", "application/json")
		w.WriteHeader(Atoi(ent[len("statusj:"):]))
		_, _ = w.Write([]byte(`{"error":"scripted"}`))
	default:
		closeRaw(w)
	}
}

// closeRaw closes the TCP connection without writing a response.
func closeRaw(w http.ResponseWriter) {
	if hj, ok := w.(http.Hijacker); ok {
		if c, _, err := hj.Hijack(); err == nil {
			_ = c.Close()
		}
	}
}

func entryCode(ent string) (int, bool) {
	for _, p := range []string{"status:", "statusj:"} {
		if strings.HasPrefix(ent, p) {
			return Atoi(ent[len(p):]), true
		}
	}
	return 0, false
}

var permRx = regexp.MustCompile(`^connect: (\d{3}): `)

const connectWatchdog = 30 * time.Second

// connect <minMs> <maxMs> <entry>... [cancel-at=<k> | cancel-after=<k>]
func (e *boEngine) connect(o *Out, ws []string) string {
	if len(ws) < 4 {
		return "bad-op"
	}
	minMs, maxMs := i64(ws[1]), i64(ws[2])
	var script []string
	cancelAt, cancelAfter := 0, 0
	for _, t := range ws[3:] {
		switch {
		case strings.HasPrefix(t, "cancel-at="):
			cancelAt = Atoi(t[len("cancel-at="):])
		case strings.HasPrefix(t, "cancel-after="):
			cancelAfter = Atoi(t[len("cancel-after="):])
		default:
			script = append(script, t)
		}
	}
	ctxLine := strings.Join(ws, " ")
	ctx, cancel := context.WithCancel(context.Background())
	defer cancel()
	fs := &fakeSrv{script: script, beyond: make(chan struct{}, 1), release: make(chan struct{}), cancelAt: cancelAt, cancel: cancel}
	srv := httptest.NewServer(fs)
	hl := &hookLog{cancelAfter: cancelAfter, cancel: cancel}
	fs.cancelAfter = cancelAfter
	fs.announced = func() int {
		hl.mu.Lock()
		defer hl.mu.Unlock()
		return len(hl.waits)
	}
	su, _ := url.Parse(srv.URL)
	u := &client.Upstream{
		URL:                 su,
		MinReconnectBackoff: time.Duration(minMs) * time.Millisecond,
		MaxReconnectBackoff: time.Duration(maxMs) * time.Millisecond,
		Logger:              hl,
	}
	type res struct {
		ln  client.Listener
		err error
	}
	done := make(chan res, 1)
	t0 := time.Now()
	go func() {
		ln, err := u.Listen(ctx, "e")
		done <- res{ln, err}
	}()
	var result string
	var elapsed time.Duration
	still := false
	var r res
	wd := time.NewTimer(connectWatchdog)
	defer wd.Stop()
	select {
	case r = <-done:
	case <-fs.beyond:
		// every scripted dial was answered and the loop dialled again
		still = true
		elapsed = time.Since(t0)
		cancel()
		close(fs.release)
		select {
		case r = <-done:
		case <-time.After(connectWatchdog):
			e.fail(o, "connect-hung", ctxLine+" (after cancel)")
			return "connect result=hung"
		}
	case <-wd.C:
		cancel()
		close(fs.release)
		e.fail(o, "connect-hung", ctxLine)
		srv.CloseClientConnections()
		srv.Close()
		return "connect result=hung"
	}
	if !still {
		elapsed = time.Since(t0)
		close(fs.release)
	}
	dials := int(fs.n.Load())
	switch {
	case still:
		result = "still-retrying"
		dials = len(script)
	case r.err == nil:
		result = "connected"
	case errors.Is(r.err, context.Canceled):
		result = "ctx"
	default:
		if m := permRx.FindStringSubmatch(r.err.Error()); m != nil {
			result = "perm:" + m[1]
		} else {
			result = "err-other"
		}
	}
	if r.ln != nil {
		_ = r.ln.Close()
	}
	fs.mu.Lock()
	for _, c := range fs.conns {
		_ = c.Close()
	}
	fs.mu.Unlock()
	srv.CloseClientConnections()
	srv.Close()

	hl.mu.Lock()
	waits := append([]int64(nil), hl.waits...)
	unparsed := hl.unparsed
	hl.mu.Unlock()

	// ---- oracle (from the property statement, on the real values)
	// expected outcome: the loop retries every retryable failure, stops at the first success /
	// permanent status / cancellation, and never dials again after it returned
	wantRes, wantDials := "still-retrying", len(script)
	for i, ent := range script {
		k := i + 1
		code, isStatus := entryCode(ent)
		if ent == "ok" {
			wantRes, wantDials = "connected", k
			break
		}
		if cancelAt == k {
			wantRes, wantDials = "ctx", k
			break
		}
		if isStatus && !retryable[code] {
			wantRes, wantDials = "perm:"+strconv.Itoa(code), k
			break
		}
		if cancelAfter == k {
			wantRes, wantDials = "ctx", k
			break
		}
	}
	if result != wantRes || dials != wantDials {
		clause := "connect-outcome"
		if wantRes == "still-retrying" || wantRes == "connected" {
			clause = "connect-gave-up"
		}
		e.fail(o, clause, fmt.Sprintf("%s got=%s dials=%d want=%s dials=%d err=%v", ctxLine, result, dials, wantRes, wantDials, r.err))
	}
	// the waits the loop announced: exponential from min, capped at max, <= 10% jitter
	minNs, maxNs := minMs*int64(time.Millisecond), maxMs*int64(time.Millisecond)
	if minNs == 0 {
		minNs = defaultMinNs
	}
	if maxNs == 0 {
		maxNs = defaultMaxNs
	}
	if unparsed == 0 {
		last := int64(0)
		for i, w := range waits {
			if c := checkWait(w, unjittered(minNs, maxNs, last), maxNs, 0); c != "" {
				e.fail(o, "connect-"+c, fmt.Sprintf("%s wait[%d]=%d prev=%d", ctxLine, i, w, last))
				break
			}
			last = w
		}
	} else {
		o.Count("connect:waits-unobservable")
	}
	// elapsed time >= the sum of the lower bounds of the waits that ran to their end
	completed := len(waits)
	if result == "ctx" && cancelAfter > 0 && completed > 0 {
		completed--
	}
	var lower int64
	for i := 0; i < completed; i++ {
		l := maxNs
		if i < 40 && minNs<<uint(i) < maxNs {
			l = minNs << uint(i)
		}
		lower += l
	}
	if int64(elapsed) < lower {
		e.fail(o, "connect-no-backoff", fmt.Sprintf("%s elapsed=%d lower=%d waits=%d", ctxLine, int64(elapsed), lower, completed))
	}
	o.Count("connect:" + strings.SplitN(result, ":", 2)[0])
	o.Add("connect:dials", dials)
	return fmt.Sprintf("connect result=%s dials=%d waits=%d", result, dials, len(waits))
}

// ---------------------------------------------------------------- generator

var retriesAlphabet = []int64{0, 1, 2, 5}

// (min, max) grid in ns: production pairs, min = max, min > max (the cap applies to the first
// wait too), 1 ns, the edge of the exact domain
var grid = [][2]int64{
	{100000000, 15000000000}, // client defaults
	{1000000000, 60000000000}, // JoinOnStartup
	{1000000, 5000000},
	{1, 1}, {1, 10}, {1, 1000}, {7, 15}, {10, 10}, {10, 1000},
	{1000, 999}, {3000000000, 1000000000}, {15, 7},
	{1 << 40, 1<<40 + 1}, {1 << 40, domMax}, {domMax, domMax}, {domMax - 1, domMax}, {1, domMax},
	{1000000007, 1 << 45}, {0, 1000}, {1000, 0}, {0, 0},
}

var retryCodes = []int{408, 429, 500, 502, 503, 504}
var permCodes = []int{400, 401, 403, 404, 409, 418, 501, 505, 200, 302}

func seedOf(r *rand.Rand) int64 { return 1 + r.Int63n(1<<40) }

func genChain(r *rand.Rand, w *bufio.Writer) {
	retries := Pick(r, retriesAlphabet)
	g := Pick(r, grid)
	min, max := g[0], g[1]
	if r.Intn(5) == 0 {
		// off-grid pair inside the domain
		min = 1 + r.Int63n(1<<uint(1+r.Intn(40)))
		max = 1 + r.Int63n(1<<uint(1+r.Intn(52)))
	}
	calls := 1 + r.Intn(12)
	attempts, last := int64(0), int64(0)
	aborts := 0
	for i := 0; i < calls && aborts < 2; i++ {
		seed := seedOf(r)
		res := realCall(retries, min, max, attempts, last, seed)
		fmt.Fprintf(w, "call %d %d %d %d %d %d %d\n", retries, min, max, attempts, last, seed, res.w)
		if res.ok {
			// chain on the values the property prescribes (not on the state the code
			// stored): the next line starts where a correct implementation would be
			attempts, last = attempts+1, res.w
			if last < 0 || last > 2*domMax {
				break
			}
		} else {
			aborts++
		}
	}
	if r.Intn(2) == 0 {
		fmt.Fprintf(w, "runs %d %d %d %d %d\n", retries, min, max, 1+r.Intn(14), seedOf(r))
	}
}

func genStates(r *rand.Rand, w *bufio.Writer) {
	for i, n := 0, 1+r.Intn(6); i < n; i++ {
		retries := int64(r.Intn(7))
		var min, max, last int64
		switch r.Intn(3) {
		case 0:
			g := Pick(r, grid)
			min, max = g[0], g[1]
		case 1:
			min, max = r.Int63n(1<<uint(1+r.Intn(52))), r.Int63n(1<<uint(1+r.Intn(52)))
		default:
			min, max = r.Int63n(2000), r.Int63n(2000)
		}
		switch r.Intn(4) {
		case 0:
			last = 0
		case 1:
			last = r.Int63n(max + 2) // at or below the cap
		case 2:
			last = r.Int63n(min + 2) // below min: unreachable from New
		default:
			last = r.Int63n(1 << uint(1+r.Intn(53)))
		}
		attempts := int64(r.Intn(9))
		if r.Intn(4) == 0 {
			attempts = retries + int64(r.Intn(3)) - 1 // around the guard
			if attempts < 0 {
				attempts = 0
			}
		}
		seed := seedOf(r)
		res := realCall(retries, min, max, attempts, last, seed)
		fmt.Fprintf(w, "call %d %d %d %d %d %d %d\n", retries, min, max, attempts, last, seed, res.w)
	}
	if r.Intn(2) == 0 {
		// outside the exact domain: oracle only
		min := r.Int63n(1 << uint(1+r.Intn(61)))
		max := domMax + r.Int63n(probeMax-domMax)
		last := int64(0)
		if r.Intn(3) != 0 {
			last = r.Int63n(max + max/10)
		}
		fmt.Fprintf(w, "probe %d %d %d %d %d %d\n", r.Intn(4), min, max, r.Intn(5), last, seedOf(r))
	}
}

func genEntry(r *rand.Rand) string {
	switch x := r.Intn(100); {
	case x < 40:
		return "refuse"
	case x < 65:
		return "status:" + strconv.Itoa(Pick(r, retryCodes))
	case x < 72:
		return "statusj:" + strconv.Itoa(Pick(r, retryCodes))
	case x < 84:
		return "ok"
	case x < 95:
		return "status:" + strconv.Itoa(Pick(r, permCodes))
	default:
		return "statusj:" + strconv.Itoa(Pick(r, permCodes))
	}
}

func genRetryable(r *rand.Rand) string {
	if r.Intn(2) == 0 {
		return "refuse"
	}
	return "status:" + strconv.Itoa(Pick(r, retryCodes))
}

func genConnect(r *rand.Rand, w *bufio.Writer, tier string) {
	for i, n := 0, 1+r.Intn(3); i < n; i++ {
		switch x := r.Intn(100); {
		case x < 2:
			// default maximum (15 s): the waits keep doubling past 15 ms
			fmt.Fprintf(w, "connect 1 0 %s ok\n", strings.TrimSpace(strings.Repeat("refuse ", 6)))
		case x < 3:
			// default minimum (100 ms)
			fmt.Fprintf(w, "connect 0 0 %s ok\n", genRetryable(r))
		case x < 13:
			// cancelled while waiting after dial k (from the logger hook; the wait is long)
			k := 1 + r.Intn(2)
			ents := []string{}
			for j := 0; j < k; j++ {
				ents = append(ents, genRetryable(r))
			}
			ents = append(ents, genEntry(r))
			min := int64(60)
			if k == 2 {
				min = 20
			}
			fmt.Fprintf(w, "connect %d %d %s cancel-after=%d\n", min, min*4, strings.Join(ents, " "), k)
		case x < 23:
			// cancelled by the time dial k returns (its handler cancels before answering)
			k := 1 + r.Intn(3)
			ents := []string{}
			for j := 0; j < k-1; j++ {
				ents = append(ents, genRetryable(r))
			}
			last := genEntry(r)
			for last == "ok" {
				last = genEntry(r)
			}
			ents = append(ents, last, genEntry(r))
			fmt.Fprintf(w, "connect %d %d %s cancel-at=%d\n", 1+r.Intn(3), 1+r.Intn(5), strings.Join(ents, " "), k)
		case x < 45:
			// only retryable failures: still retrying after all of them
			ents := []string{}
			for j, m := 0, 1+r.Intn(6); j < m; j++ {
				ents = append(ents, genRetryable(r))
			}
			fmt.Fprintf(w, "connect %d %d %s\n", 1+r.Intn(3), 1+r.Intn(5), strings.Join(ents, " "))
		default:
			ents := []string{}
			for j, m := 0, 1+r.Intn(6); j < m; j++ {
				ents = append(ents, genEntry(r))
			}
			fmt.Fprintf(w, "connect %d %d %s\n", 1+r.Intn(3), 1+r.Intn(5), strings.Join(ents, " "))
		}
	}
}

func (e *boEngine) Gen(r *rand.Rand, n int, tier string, w *bufio.Writer) {
	for c := 0; c < n; c++ {
		fmt.Fprintf(w, "case bo-%d\n", c)
		switch x := r.Intn(100); {
		case x < 62:
			genChain(r, w)
		case x < 80:
			genStates(r, w)
		case x < 90:
			genConnect(r, w, tier)
		default:
			genChain(r, w)
			genConnect(r, w, tier)
		}
	}
}
