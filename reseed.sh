#!/bin/bash
# usage: reseed.sh <seed name> <ID> [<ID>...] — re-runs our checks against an already confirmed seeded change
# (after a check was strengthened) and appends the result to seeded/<name>/confirm.txt and meta.json
name=$1; shift
out=/verif/seeded/$name
ids=$(grep -o '^\[C[0-9]*\]' $out/confirm.txt | tr -d '[]' | sort -u | tr '\n' ' ')
for id in "$@"; do
  SAVE_REPLAYS=$out/replays /verif/mutant_test.sh seed$name $out/patch.diff $id > $out/check_$id.log 2>&1
  grep -h "VIOLATION\|KNOWN-FINDING\| ok$\|VIOLATIONS=" $out/check_$id.log | head -5 | sed "s/^/[$id] (re-run after strengthening) /" | tee -a $out/confirm.txt
done
python3 /verif/seeded/mkmeta.py $name $(echo $ids "$@" | tr ' ' '\n' | sort -u | tr '\n' ' ')
