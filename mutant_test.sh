#!/bin/sh
# usage: mutant_test.sh <name> <patch.diff|-R patch> <ID> [<ID>...]   — runs checks against a scratch worktree with the patch applied
# (never touches /repo's working tree or /verif's build state)
set -e
name=$1; shift
patch=$1; shift
rev=""
if [ "$patch" = "-R" ]; then rev="-R"; patch=$1; shift; fi
WT=/tmp/wt-$name; VS=/tmp/vs-$name
git -C /repo worktree remove --force $WT 2>/dev/null || true
rm -rf $WT $VS
git -C /repo worktree add --detach $WT HEAD >/dev/null 2>&1
git -C $WT apply $rev "$patch"
rsync -a --delete --exclude .git --exclude replays /verif/ $VS/ || rsync -a --exclude .git --exclude replays /verif/ $VS/ || true
for id in "$@"; do
  (cd $VS && VERIF_REPO=$WT ./check $id; echo "exit=$?") 2>&1 | tail -6
done
if [ -n "${SAVE_REPLAYS:-}" ]; then mkdir -p "$SAVE_REPLAYS"; cp $VS/replays/*.ops "$SAVE_REPLAYS"/ 2>/dev/null || true; fi
git -C /repo worktree remove --force $WT
rm -rf $VS
