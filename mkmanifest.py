#!/usr/bin/env python3
"""Regenerates MANIFEST.json from checks.d/<ID>.json (one file per claimed property) and not_applicable.json."""
import json, os
V = os.path.dirname(os.path.abspath(__file__))
props = [json.loads(l)["id"] for l in open(os.path.join(V, "properties.jsonl"))]
checks, engines = [], {}
for pid in props:
    p = os.path.join(V, "checks.d", pid + ".json")
    if not os.path.exists(p):
        continue
    c = json.load(open(p))
    m = c["manifest"]
    checks.append({
        "property_id": pid,
        "quick_cmd": "./check %s --tier quick" % pid,
        "thorough_cmd": "./check %s --tier thorough" % pid,
        "evidence_file": "/verif/evidence/%s.json" % pid,
        "replay_cmd_template": "./check %s --replay {path}" % pid,
        "engine": ",".join(e["name"] for e in c["engines"]),
        "level_claimed": {"category": "proof", "text": m["text"], "design_ref": m.get("design_ref", "DESIGN.md §5 " + pid)},
        "level_note": m["note"],
        "technique": m["technique"],
    })
    for e in c["engines"]:
        engines.setdefault(e["name"], []).append(pid)
na_path = os.path.join(V, "not_applicable.json")
na = json.load(open(na_path)) if os.path.exists(na_path) else {}
claimed = {c["property_id"] for c in checks}
not_applicable = [{"property_id": p, "reason": na.get(p, "check not built yet in this revision (planned, see DESIGN.md §5); not a claim that the technique cannot apply")}
                  for p in props if p not in claimed]
man = {
    "version": 1,
    "setup_cmd": "./setup.sh",
    "hooks": {
        "guard": "verif",
        "enable": "harness/bin/mkshims -repo /repo -engine <e> -out harness/overlay-<e>.json && go build -tags verif -overlay harness/overlay-<e>.json ./cmd/h-<e> (export-only shims under /verif/harness/shims, pruned per engine and bridged over renames by mkshims, are injected by the overlay; /repo receives no hook commits)",
        "baseline_off_cmd": "cd /repo && go test -mod=mod -vet=off -count=1 -timeout 25m ./...",
        "source_commits": [],
        "add_only": True,
    },
    "engines": [{"name": n, "path": "harness/eng/%s + lean/Driver" % n, "serves_properties": ps,
                 "kind_free_text": "correspondence engine: the real Go code (harness `run`) and the Lean model (driver) execute the same op lines; Go-side oracle"}
                for n, ps in sorted(engines.items())],
    "checks": checks,
    "not_applicable": not_applicable,
    "notes": "Every check: regenerate facts from the Go source, lake build Props.<ID>, #print axioms audit, build harness from /repo's working tree, correspondence + oracle, evidence. See DESIGN.md.",
}
json.dump(man, open(os.path.join(V, "MANIFEST.json"), "w"), indent=1)
print("claimed:", sorted(claimed))
