#!/bin/sh
# Offline setup: build the Lean project (model, proofs, property theorems, driver) and the Go harness.
set -e
cd "$(dirname "$0")"
export GOFLAGS=-mod=mod GOPROXY=off
unset GOTOOLCHAIN GOSUMDB || true
mkdir -p evidence replays harness/bin
(cd harness && cp /repo/go.sum . && go build -o bin/facts ./cmd/facts && ./bin/facts /repo "$(pwd)/../lean/PikoModel/Generated/Facts.lean")
(cd lean && lake build PikoModel Proofs Props driver)
(cd harness && go build -o bin/mkshims ./cmd/mkshims && for d in cmd/h-*; do e=$(basename $d); e=${e#h-}; ./bin/mkshims -repo /repo -engine $e -out overlay-$e.json && go build -tags verif -overlay overlay-$e.json -o bin/h-$e ./$d; done)
echo setup ok
