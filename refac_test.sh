#!/bin/bash
# usage: refac_test.sh <name> <patch.diff> [<ID>...]  — false-alarm test: a behaviour-preserving change of /repo is applied in a
# scratch worktree and every (or the listed) quick check is run against it from a scratch copy of /verif; all must exit 0.
name=$1; patch=$2; shift 2
ids="$@"; [ -z "$ids" ] && ids="C01 C02 C03 C04 C05 C06 C07 C08 C09 C10 C11 C12 C13 C14 C15 C16 C17 C18 C19 C20"
WT=/tmp/wt-$name; VS=/tmp/vs-$name
git -C /repo worktree remove --force $WT 2>/dev/null; rm -rf $WT $VS
git -C /repo worktree add --detach $WT HEAD >/dev/null 2>&1
git -C $WT apply "$patch" || { echo "patch does not apply"; exit 2; }
rsync -a --delete --exclude .git --exclude replays /verif/ $VS/
mkdir -p /verif/refactors/$name; cp "$patch" /verif/refactors/$name/patch.diff
: > /verif/refactors/$name/result.txt
for id in $ids; do
  (cd $VS && VERIF_REPO=$WT ./check $id --tier quick > /tmp/refac_${name}_$id.log 2>&1; echo "$id exit=$? $(grep -c '^VIOLATION' /tmp/refac_${name}_$id.log) $(tail -n 1 /tmp/refac_${name}_$id.log | cut -c1-160)") | tee -a /verif/refactors/$name/result.txt
done
git -C /repo worktree remove --force $WT; rm -rf $VS
