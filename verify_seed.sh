#!/bin/bash
# usage: verify_seed.sh <name> <seed worktree> <pkg dir of demo test> <ID> [<ID>...]
# Confirms an independently produced property-breaking change (patch + demonstration) in a FRESH scratch worktree:
#   demo passes without the change, fails with it; the existing suite passes with it; then runs our checks against it.
# Stores everything under /verif/seeded/<name>/.
set -u
name=$1; src=$2; pkg=$3; shift 3
export GOFLAGS=-mod=mod GOPROXY=off
out=/verif/seeded/$name; mkdir -p $out
cp $src/_seed/patch.diff $out/patch.diff
cp $src/_seed/*_test.go $out/ 2>/dev/null
cp $src/_seed/meta.json $out/meta.agent.json 2>/dev/null
WT=/tmp/vseed-$name
git -C /repo worktree remove --force $WT 2>/dev/null; rm -rf $WT
git -C /repo worktree add --detach $WT HEAD >/dev/null 2>&1
demo=$(ls $src/_seed/*_test.go | head -1)
cp $demo $WT/$pkg/
(cd $WT && go test -vet=off -count=1 -run "${DEMO_RUN:-TestSeed}" ./$pkg/ > $out/demo_without.log 2>&1); r1=$?
git -C $WT apply $out/patch.diff; ra=$?
(cd $WT && go build ./... > $out/build_with.log 2>&1); rb=$?
(cd $WT && go test -vet=off -count=1 -run "${DEMO_RUN:-TestSeed}" ./$pkg/ > $out/demo_with.log 2>&1); r2=$?
rm -f $WT/$pkg/$(basename $demo)
(cd $WT && go test -vet=off -count=1 ./... > $out/suite_with.log 2>&1); r3=$?
echo "apply=$ra build=$rb demo_without=$r1 (want 0) demo_with=$r2 (want !=0) suite_with=$r3 (want 0)" | tee $out/confirm.txt
git -C /repo worktree remove --force $WT
python3 /verif/seeded/mkmeta.py $name "$@"
# our checks
for id in "$@"; do
  SAVE_REPLAYS=$out/replays /verif/mutant_test.sh seed$name $out/patch.diff $id > $out/check_$id.log 2>&1
  grep -h "VIOLATION\|KNOWN-FINDING\| ok$\|VIOLATIONS=" $out/check_$id.log | head -5 | sed "s/^/[$id] /" | tee -a $out/confirm.txt
done
python3 /verif/seeded/mkmeta.py $name "$@"
