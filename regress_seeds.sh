#!/bin/bash
# usage: regress_seeds.sh [<name>...] — re-runs, for every kept seeded change (or the named ones), the quick check of ITS OWN
# property against the change and records caught / missed in seeded/REGRESSION.txt (a regression test of the checks themselves)
cd /verif
names="$@"; [ -z "$names" ] && names=$(ls seeded | grep -E '^C[0-9]+[a-z]?$')
for n in $names; do
  id=$(python3 -c "import json;print(json.load(open('/verif/seeded/$n/meta.json'))['property'])")
  out=$(./mutant_test.sh rg$n /verif/seeded/$n/patch.diff $id 2>&1 | grep -E "^VIOLATION|VIOLATIONS=| ok$" | head -3 | tr '\n' ' ' | cut -c1-260)
  if echo "$out" | grep -q "VIOLATION property=$id"; then r=caught; else r=MISSED; fi
  echo "$(date +%H:%M) $n $id $r :: $out" | tee -a seeded/REGRESSION.txt
done
